//! K1 (bounded): the two per-element loops that call user code: the erased destructor closure built
//! by `AnyVecRaw::new::<T>` and `clone_type::clone_fn::<T>`.  They run on real memory with a stated
//! unwind bound (len <= 8); everywhere else their *contract* (one call per element, ascending, at
//! stride size_of::<T>()) stands in for them.  Also K3: bounded cross-checks on real backends.
use core::alloc::Layout;
use core::mem::{size_of, MaybeUninit};
use crate::any_vec_raw::AnyVecRaw;
use crate::clone_type::CloneFnTrait;
use crate::mem::{Empty, MemBuilder, Stack};
use crate::traits::{Cloneable, None};
use crate::AnyVec;
use crate::any_value::{AnyValueRaw, AnyValueWrapper};

// ---- in-place loop invariants (hooks in src/any_vec_raw.rs and src/clone_type.rs) -------------------------
/// erased destructor loop: after `i` iterations the cursor is `entry + i x size_of::<T>()`
pub fn dc_inv<T>(ptr: *mut u8, entry: *mut u8, i: usize, len: usize) -> bool {
    i <= len && ptr as usize == entry as usize + i * size_of::<T>()
}
/// clone_fn loop (no loop-carried state besides the index)
pub fn cf_inv(i: usize, len: usize) -> bool { i <= len }

/// ghost read by the element types of the unbounded loop harnesses (read-only inside the loops)
pub static mut U_START: usize = 0;
pub static mut U_LEN: usize = 0;
#[repr(C)]
pub struct U8(pub [u8; 8]);
impl Drop for U8 {
    fn drop(&mut self) {
        let a = self as *mut Self as usize;
        let (s, l) = unsafe { (U_START, U_LEN) };
        kani::assert(a >= s && a < s + l * 8 && (a - s) % 8 == 0, "erased destructor: every call destroys a slot start inside ptr .. ptr + len x size_of::<T>()");
    }
}
impl Clone for U8 {
    fn clone(&self) -> Self {
        let a = self as *const Self as usize;
        let (s, l) = unsafe { (U_START, U_LEN) };
        kani::assert(a >= s && a < s + l * 8 && (a - s) % 8 == 0, "clone_fn: every call clones a slot start inside src .. src + len x size_of::<T>()");
        U8([0; 8])
    }
}
extern crate alloc;
const UCAP: usize = 1 << 20;
/// unbounded (len <= 2^20): the loop is closed by its in-place invariant; stride, range and alignment of every
/// destructor call. (The *count* of calls is the for-loop's own `0..len`; the bounded harnesses check it for len <= 8.)
fn drop_closure_unbounded_h() {
    let len: usize = kani::any();
    kani::assume(len <= UCAP);
    let base = unsafe { alloc::alloc::alloc(Layout::from_size_align(UCAP * 8, 8).unwrap()) };
    kani::assume(!base.is_null());
    unsafe { U_START = base as usize; U_LEN = len; }
    let raw = AnyVecRaw::<Empty>::new::<U8>(Empty, Empty.build(Layout::new::<U8>()));
    let f = raw.drop_fn.unwrap();
    unsafe { f(base, len) };
    kani::cover!(len == UCAP, "COV largest length");
    kani::cover!(true, "REACHED");
}
fn clone_fn_unbounded_h() {
    let len: usize = kani::any();
    kani::assume(len <= UCAP);
    let src = unsafe { alloc::alloc::alloc(Layout::from_size_align(UCAP * 8, 8).unwrap()) };
    let dst = unsafe { alloc::alloc::alloc(Layout::from_size_align(UCAP * 8, 8).unwrap()) };
    kani::assume(!src.is_null() && !dst.is_null());
    unsafe { U_START = src as usize; U_LEN = len; }
    let f = <U8 as CloneFnTrait<dyn Cloneable>>::CLONE_FN;
    unsafe { f(src, dst, len) };
    kani::cover!(len == UCAP, "COV largest length");
    kani::cover!(true, "REACHED");
}

pub const LB: usize = 8;
pub struct Log { pub n: usize, pub at: [usize; LB + 1] }
pub static mut DLOG: Log = Log { n: 0, at: [0; LB + 1] };
pub static mut CLOG: Log = Log { n: 0, at: [0; LB + 1] };
fn dlog() -> &'static mut Log { unsafe { &mut *core::ptr::addr_of_mut!(DLOG) } }
fn clog() -> &'static mut Log { unsafe { &mut *core::ptr::addr_of_mut!(CLOG) } }

#[repr(C)]
pub struct L<const N: usize>(pub [u8; N]);
impl<const N: usize> Drop for L<N> {
    fn drop(&mut self) { let l = dlog(); if l.n <= LB { l.at[l.n] = self as *mut Self as usize; } l.n += 1; }
}
impl<const N: usize> Clone for L<N> {
    fn clone(&self) -> Self {
        let l = clog(); if l.n <= LB { l.at[l.n] = self as *const Self as usize; } l.n += 1;
        let mut b = self.0; if N > 0 { b[0] = b[0].wrapping_add(1); } L(b)
    }
}

fn drop_closure_h<const N: usize>() {
    *dlog() = Log { n: 0, at: [0; LB + 1] };
    let mut buf: [MaybeUninit<L<N>>; LB] = unsafe { MaybeUninit::uninit().assume_init() };
    let raw = AnyVecRaw::<Empty>::new::<L<N>>(Empty, Empty.build(Layout::new::<L<N>>()));
    kani::assert(raw.drop_fn.is_some(), "a type with drop glue gets a destructor function");
    let f = raw.drop_fn.unwrap();
    let len: usize = kani::any();
    kani::assume(len <= LB);
    let base = buf.as_mut_ptr() as usize;
    unsafe { f(buf.as_mut_ptr() as *mut u8, len) };
    kani::assert(dlog().n == len, "erased destructor: exactly len destructor calls");
    let i: usize = kani::any();
    kani::assume(i < len);
    kani::assert(N == 0 || dlog().at[i] == base + i * size_of::<L<N>>(), "erased destructor: the i-th call destroys the element at ptr + i x size_of::<T>()");
    kani::cover!(len == LB, "COV bound reached");
    kani::cover!(true, "REACHED");
}

fn clone_fn_h<const N: usize>() {
    *clog() = Log { n: 0, at: [0; LB + 1] };
    *dlog() = Log { n: 0, at: [0; LB + 1] };
    let src: [L<N>; LB] = core::array::from_fn(|_| L([kani::any(); N]));
    let mut dst: [MaybeUninit<L<N>>; LB] = unsafe { MaybeUninit::uninit().assume_init() };
    let f = <L<N> as CloneFnTrait<dyn Cloneable>>::CLONE_FN;
    let len: usize = kani::any();
    kani::assume(len <= LB);
    unsafe { f(src.as_ptr() as *const u8, dst.as_mut_ptr() as *mut u8, len) };
    kani::assert(clog().n == len && dlog().n == 0, "clone_fn: exactly len clone calls, nothing destroyed");
    let i: usize = kani::any();
    kani::assume(i < len);
    // (zero-sized elements have no distinguishing address: for them the accounting is by count)
    kani::assert(N == 0 || clog().at[i] == src.as_ptr() as usize + i * size_of::<L<N>>(), "clone_fn: the i-th call clones the source element i");
    if N > 0 {
        let d = unsafe { &*(dst.as_ptr().add(i) as *const L<N>) };
        kani::assert(d.0[0] == src[i].0[0].wrapping_add(1), "clone_fn: slot i of the target holds the clone of source element i");
        if N > 1 {
            let j: usize = kani::any();
            kani::assume(j < N && j > 0);
            kani::assert(d.0[j] == src[i].0[j], "clone_fn: the clone is written whole");
        }
    }
    core::mem::forget(src);
    kani::cover!(len == LB, "COV bound reached");
    kani::cover!(true, "REACHED");
}

/// non-Cloneable constraint sets carry a no-op clone function
fn nop_clone_h() {
    let f = <u8 as CloneFnTrait<dyn None>>::CLONE_FN;
    let g = <u8 as CloneFnTrait<dyn Send>>::CLONE_FN;
    let mut d = 7u8;
    let s = 9u8;
    unsafe { f(&s, &mut d, 1); g(&s, &mut d, 1); }
    kani::assert(d == 7, "non-Cloneable constraint sets: clone function is a no-op");
    kani::cover!(true, "REACHED");
}

// ---- K3: bounded cross-checks on real memory --------------------------------------------------
/// erased insert on a real Stack<16> vector of u32 (capacity 4), copy_bytes NOT replaced
fn k3_insert_h<T: Copy + PartialEq + kani::Arbitrary + 'static, const SIZE: usize, const CAP: usize>() {
    let x: [T; CAP] = kani::any();
    let y: T = kani::any();
    let len: usize = kani::any();
    let index: usize = kani::any();
    kani::assume(len < CAP && index <= len);
    let mut v: AnyVec<dyn None, Stack<SIZE>> = AnyVec::new::<T>();
    { let mut t = v.downcast_mut::<T>().unwrap(); let mut i = 0; while i < CAP { if i < len { t.push(x[i]); } i += 1; } }
    kani::assert(v.capacity() == CAP, "Stack<CAP x size>: capacity CAP");
    let mut yv = y;
    let raw = unsafe { AnyValueRaw::new(core::ptr::NonNull::from(&mut yv).cast::<u8>(), size_of::<T>(), core::any::TypeId::of::<T>()) };
    v.insert(index, raw);
    kani::assert(v.len() == len + 1, "K3 insert: len' == len + 1");
    let j: usize = kani::any();
    kani::assume(j <= len);
    let got = *v.downcast_ref::<T>().unwrap().at(j);
    let want = if j < index { x[j] } else if j == index { y } else { x[j - 1] };
    kani::assert(got == want, "K3 insert: the vector equals Vec::insert's result (real memory, real copy_bytes)");
    core::mem::forget(v);
    kani::cover!(index == 0 && len == CAP - 1, "COV front of full-1");
    kani::cover!(true, "REACHED");
}
type SV = AnyVec<dyn None, Stack<16>>;
fn k3_remove_h() {
    let x: [u32; 4] = kani::any();
    let len: usize = kani::any();
    let index: usize = kani::any();
    kani::assume(len >= 1 && len <= 4 && index < len);
    let mut v: SV = AnyVec::new::<u32>();
    { let mut t = v.downcast_mut::<u32>().unwrap(); let mut i = 0; while i < 4 { if i < len { t.push(x[i]); } i += 1; } }
    let swap: bool = kani::any();
    if swap { drop(v.swap_remove(index)); } else { drop(v.remove(index)); }
    kani::assert(v.len() == len - 1, "K3 remove: len' == len - 1");
    let j: usize = kani::any();
    kani::assume(j < len - 1);
    let got = *v.downcast_ref::<u32>().unwrap().at(j);
    let want = if swap { if j == index { x[len - 1] } else { x[j] } } else if j < index { x[j] } else { x[j + 1] };
    kani::assert(got == want, "K3 remove/swap_remove: the vector equals Vec's result (real memory, real copy_bytes)");
    core::mem::forget(v);
    kani::cover!(true, "REACHED");
}

// ---- Clone::clone_from (provided today: `*self = source.clone()`) on real memory -----------------------------
pub static mut CA: usize = 0;
pub static mut CB: usize = 0;
#[derive(PartialEq)]
pub struct TA(pub [u8; 8]); // same size as TB, alignment 1
#[derive(PartialEq)]
pub struct TB(pub u64);
impl Clone for TA { fn clone(&self) -> Self { unsafe { CA += 1; } TA(self.0) } }
/// capacity of the harness vectors (Stack<16> of 8-byte elements): destination and source may both be full
impl Clone for TB { fn clone(&self) -> Self { unsafe { CB += 1; } TB(self.0) } }
/// same layout as TB, a different type
pub struct TC(pub u64);
impl Clone for TC { fn clone(&self) -> Self { unsafe { CA += 1; } TC(self.0) } }
pub fn mk_tc() -> TC { TC(7) }
pub fn mk_ta() -> TA { TA([7; 8]) }
pub fn mk_tb() -> TB { TB(7) }
/// After `dst.clone_from(&src)` the destination is a clone of the source in every respect a later operation
/// depends on: length, element type, values, and the element clone function (a later `dst.clone()` runs the
/// SOURCE type's `Clone`). Destination `D` and source `TB` hold different element types of the same size (alignment 1 vs 8) or the same type; the vectors have capacity 2,
/// so a full destination receives a full source (the result fits: no capacity change on fixed storage).
fn clone_from_h<D: Clone + 'static>(mk: fn() -> D) {
    unsafe { CA = 0; CB = 0; }
    let n: usize = kani::any();
    let m: usize = kani::any();
    kani::assume(n <= 2 && m <= 2);
    let x: [u64; 2] = kani::any();
    let mut dst: AnyVec<dyn Cloneable, Stack<16>> = AnyVec::new::<D>();
    let mut src: AnyVec<dyn Cloneable, Stack<16>> = AnyVec::new::<TB>();
    { let mut t = dst.downcast_mut::<D>().unwrap(); let mut i = 0; while i < 2 { if i < m { t.push(mk()); } i += 1; } }
    { let mut t = src.downcast_mut::<TB>().unwrap(); let mut i = 0; while i < 2 { if i < n { t.push(TB(x[i])); } i += 1; } }
    dst.clone_from(&src);
    kani::assert(dst.len() == n && dst.element_typeid() == core::any::TypeId::of::<TB>(), "clone_from: destination has the source's length and element type");
    kani::assert(dst.element_layout() == Layout::new::<TB>(), "clone_from: destination has the source's element layout (size and alignment)");
    kani::assert(dst.as_bytes().as_ptr() as usize % core::mem::align_of::<TB>() == 0, "clone_from: destination storage is aligned for the source's element type");
    kani::assert(unsafe { CB } == n && unsafe { CA } == 0, "clone_from: clones each source element once, with the source type's Clone");
    let c = dst.clone();
    kani::assert(unsafe { CB } == 2 * n && unsafe { CA } == 0, "clone_from: a later clone of the destination runs the source type's Clone (clone function taken over)");
    kani::assert(c.len() == n, "clone_from: a later clone has the same length");
    if n > 0 {
        let j: usize = kani::any();
        kani::assume(j < n);
        kani::assert(c.downcast_ref::<TB>().unwrap().at(j).0 == x[j] && dst.downcast_ref::<TB>().unwrap().at(j).0 == x[j], "clone_from: values equal the source's");
    }
    kani::cover!(n == 2 && m == 1, "COV different lengths");
    kani::cover!(true, "REACHED");
    core::mem::forget(c);
    core::mem::forget(dst);
    core::mem::forget(src);
}

include!("k1_loops.inst.rs");
