//! K1: the built-in fixed backends Stack<SIZE>, StackN<N,SIZE>, Empty and `dangling` (C11, C12, C19).
use core::alloc::Layout;
use core::mem::{align_of, size_of, size_of_val};
use crate::mem::{Empty, Mem, MemBuilder, Stack, StackN};
use super::types::*;

/// capacity, layout report, pointer inside the inline buffer, pointer alignment
fn stack_build_h<T: 'static, const SIZE: usize>() {
    let l = Layout::new::<T>();
    let mut m = Stack::<SIZE>.build(l);
    let want = if size_of::<T>() == 0 { usize::MAX } else { SIZE / size_of::<T>() };
    kani::assert(m.size() == want, "Stack<SIZE>: capacity == SIZE / size_of::<T>() (unbounded for zero-sized T)");
    kani::assert(m.element_layout() == l, "Stack<SIZE>: reports the element layout it was built with");
    let base = &m as *const _ as usize;
    let p = m.as_ptr() as usize;
    kani::assert(p == m.as_mut_ptr() as usize, "Stack<SIZE>: as_ptr and as_mut_ptr agree");
    kani::assert(p >= base && p + SIZE <= base + size_of_val(&m), "Stack<SIZE>: storage is the SIZE inline bytes of the vector itself (no heap)");
    kani::assert(size_of::<T>() == 0 || m.size() * size_of::<T>() <= SIZE, "Stack<SIZE>: capacity x size fits the inline buffer");
    kani::assert((p - base) % align_of::<T>() == 0, "C12: inline storage offset is a multiple of the element alignment");
    kani::assert(align_of_val_mem(&m) >= align_of::<T>(), "C12: the storage type is at least as aligned as the element type (wherever the vector is placed)");
    kani::cover!(true, "REACHED");
}
fn align_of_val_mem<M>(_: &M) -> usize { align_of::<M>() }

fn stackn_build_h<T: 'static, const N: usize, const SIZE: usize>() {
    let l = Layout::new::<T>();
    let mut m = StackN::<N, SIZE>.build(l);
    kani::assert(m.size() == N, "StackN<N,SIZE>: capacity == N");
    kani::assert(m.element_layout() == l, "StackN<N,SIZE>: reports the element layout it was built with");
    kani::assert(N * size_of::<T>() <= SIZE, "StackN<N,SIZE>: N elements fit SIZE bytes whenever build returns");
    let base = &m as *const _ as usize;
    let p = m.as_ptr() as usize;
    kani::assert(p == m.as_mut_ptr() as usize, "StackN: as_ptr and as_mut_ptr agree");
    kani::assert(p >= base && p + SIZE <= base + size_of_val(&m), "StackN: storage is the SIZE inline bytes of the vector itself (no heap)");
    kani::assert((p - base) % align_of::<T>() == 0, "C12: inline storage offset is a multiple of the element alignment");
    kani::assert(align_of_val_mem(&m) >= align_of::<T>(), "C12: the storage type is at least as aligned as the element type (wherever the vector is placed)");
    kani::cover!(true, "REACHED");
}
/// N elements do not fit SIZE bytes (also when N x size is not representable): build cannot return
fn stackn_insufficient_h<T: 'static, const N: usize, const SIZE: usize>() {
    let m = StackN::<N, SIZE>.build(Layout::new::<T>());
    kani::cover!(true, "RETURNED");
}

/// an element alignment the 64-aligned inline buffer cannot honour (also for a zero-sized type): build cannot return
fn stack_overaligned_h<T: 'static, const SIZE: usize>(n: bool) {
    if n { let _m = StackN::<1, SIZE>.build(Layout::new::<T>()); } else { let _m = Stack::<SIZE>.build(Layout::new::<T>()); }
    kani::cover!(true, "RETURNED");
}

fn empty_h<T: 'static>() {
    let l = Layout::new::<T>();
    let mut m = Empty.build(l);
    kani::assert(m.size() == 0 && m.element_layout() == l, "Empty: zero capacity, reports the element layout");
    let p = m.as_ptr() as usize;
    kani::assert(p != 0 && p % align_of::<T>() == 0 && p == m.as_mut_ptr() as usize, "C12: Empty's storage pointer is non-null and aligned");
    kani::cover!(true, "REACHED");
}

/// `dangling(layout)` for every valid layout: non-null, aligned
fn dangling_h() {
    let size: usize = kani::any();
    let sh: u32 = kani::any();
    kani::assume(sh < 40);
    let align = 1usize << sh;
    kani::assume(size <= (isize::MAX as usize) - (align - 1));
    let l = Layout::from_size_align(size, align).unwrap();
    // `dangling` is private to `mem`; Empty's storage pointer is exactly `dangling(&element_layout)`
    let p = Empty.build(l).as_ptr() as usize;
    kani::assert(p != 0 && p % align == 0, "C12: dangling(layout) is non-null and aligned for every layout");
    kani::cover!(true, "REACHED");
}

/// the default `Mem::expand` of fixed-capacity memory always panics
fn stack_expand_h() {
    let mut m = Stack::<16>.build(Layout::new::<u32>());
    let n: usize = kani::any();
    m.expand(n);
    kani::cover!(true, "RETURNED");
}

/// without the `alloc` feature the default backend is the heap-free `Empty`
#[cfg(not(feature = "alloc"))]
fn default_is_empty_h() {
    kani::assert(core::any::TypeId::of::<crate::mem::Default>() == core::any::TypeId::of::<Empty>(), "C19: without `alloc` the default backend is Empty");
    let v: crate::AnyVec = crate::AnyVec::new::<u64>();
    kani::assert(v.capacity() == 0 && v.len() == 0, "C19: the default vector is the zero-capacity Empty-backed vector");
    kani::cover!(true, "REACHED");
}

include!("k1_mem.inst.rs");
