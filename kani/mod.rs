//! Contract harnesses for any_vec (see /verif/DESIGN.md). Compiled only under `cargo kani`.
#![allow(dead_code, unused_variables, unused_imports, static_mut_refs, unused_unsafe, unused_mut, unused_macros)]

/// A contract harness over the ghost backend: every memory primitive is replaced by its contract.
macro_rules! h {
    ($(#[$m:meta])* $name:ident, $body:expr) => {
        #[kani::proof]
        #[kani::stub(crate::copy_bytes, crate::kani_verif::ghost::stub_copy_bytes)]
        #[kani::stub(core::ptr::copy, crate::kani_verif::ghost::stub_ptr_copy)]
        #[kani::stub(core::ptr::copy_nonoverlapping, crate::kani_verif::ghost::stub_ptr_copy_nonoverlapping)]
        $(#[$m])*
        // statics are assigned explicitly first: under -Z loop-contracts their initial values are havocked
        fn $name() { crate::kani_verif::util::set_domain(21); $body }
    };
}

/// A plain contract harness (no memory primitive is replaced).
macro_rules! p {
    ($(#[$m:meta])* $name:ident, $body:expr) => {
        #[kani::proof]
        $(#[$m])*
        // statics are assigned explicitly first: under -Z loop-contracts their initial values are havocked
        fn $name() { crate::kani_verif::util::set_domain(21); $body }
    };
}

pub mod ghost;
pub mod post;
pub mod types;
pub mod util;

pub mod k1_lib;
mod k1_handles;
pub mod k1_types;
pub mod k1_misc;
mod k1_mem;
pub mod k1_views;
mod t_sendsync;
pub mod k1_loops;
mod k2_insert;
mod k2_remove;
mod k2_range;
mod k2_misc;
mod k2_lazy;
mod k1_rawparts;
#[cfg(feature = "alloc")]
pub mod k1_heap;
