//! K1: into_range over every RangeBounds form; expected panics of the checked entry points
//! (C01, C02, C04): out-of-range index / invalid range panics before anything changes.
use core::any::TypeId;
use core::mem::{size_of, MaybeUninit};
use core::ops::Bound;
use core::ptr::NonNull;
use crate::AnyVec;
use crate::any_value::{AnyValueRaw, AnyValueWrapper};
use crate::traits::None;
use super::ghost::*;
use super::types::*;
use super::util::*;

fn sym_bound() -> Bound<usize> {
    let k: u8 = kani::any();
    let v: usize = kani::any();
    if k == 0 { Bound::Included(v) } else if k == 1 { Bound::Excluded(v) } else { Bound::Unbounded }
}

/// mathematical start / end of a bound pair (None: not representable)
fn want_start(b: Bound<usize>) -> Option<usize> {
    match b { Bound::Included(i) => Some(i), Bound::Excluded(i) => if i == usize::MAX { Option::None } else { Some(i + 1) }, Bound::Unbounded => Some(0) }
}
fn want_end(b: Bound<usize>, len: usize) -> Option<usize> {
    match b { Bound::Included(i) => if i == usize::MAX { Option::None } else { Some(i + 1) }, Bound::Excluded(i) => Some(i), Bound::Unbounded => Some(len) }
}
fn range_valid(s: Bound<usize>, e: Bound<usize>, len: usize) -> bool {
    match (want_start(s), want_end(e, len)) { (Some(a), Some(b)) => a <= b && b <= len, _ => false }
}

/// valid ranges: the result is exactly start..end
fn into_range_ok_h() {
    let len: usize = kani::any();
    let (s, e) = (sym_bound(), sym_bound());
    kani::assume(range_valid(s, e, len));
    let r = crate::into_range(len, (s, e));
    kani::assert(Some(r.start) == want_start(s) && Some(r.end) == want_end(e, len), "into_range: start..end is exactly what the bounds denote");
    kani::assert(r.start <= r.end && r.end <= len, "into_range: 0 <= start <= end <= len");
    kani::cover!(matches!(s, Bound::Excluded(_)) && matches!(e, Bound::Included(_)), "COV (Excluded, Included)");
    kani::cover!(true, "REACHED");
}
/// invalid ranges (start > end, end > len, bound not representable): the call cannot return
fn into_range_bad_h() {
    let len: usize = kani::any();
    let (s, e) = (sym_bound(), sym_bound());
    kani::assume(!range_valid(s, e, len));
    let r = crate::into_range(len, (s, e));
    kani::cover!(true, "RETURNED");
}

/// drain / splice with an invalid range on a vector: expected panic, nothing touched
fn range_op_bad<T: 'static>(splice: bool, typed: bool) {
    ghost_init();
    let (len, cap) = sym_state();
    let mut v = unsafe { mk_vec::<dyn None, T>(0, len, cap, false, true) };
    reg(&v, 0);
    let (s, e) = (sym_bound(), sym_bound());
    kani::assume(!range_valid(s, e, len));
    g().armed = true;
    if typed {
        let mut t = v.downcast_mut::<T>().unwrap();
        if splice { let _ = t.splice((s, e), core::iter::empty::<T>()); } else { let _ = t.drain((s, e)); }
    } else if splice {
        let _ = v.splice((s, e), core::iter::empty::<AnyValueRaw>());
    } else {
        let _ = v.drain((s, e));
    }
    kani::cover!(true, "RETURNED");
}

/// remove / swap_remove / insert with an out-of-range index: expected panic, nothing touched.
/// `index_check` is replaced by an observing twin: at the moment the bounds check fires the
/// vector is provably unchanged (len, capacity, no storage effect).
pub fn obs_index_check<M: crate::mem::MemBuilder>(this: &crate::any_vec_raw::AnyVecRaw<M>, index: usize) {
    if !(index < this.len) {
        let st = unsafe { &*core::ptr::addr_of!(OOB) };
        kani::assert(this.len == st.0 && this.capacity() == st.1 && g().n_moves == 0 && g().total_destroyed == 0 && g().v[0].cap_changes == 0,
            "out-of-range index: the vector is unchanged when the bounds check fires");
        panic!("Index out of range!");
    }
}
pub static mut OOB: (usize, usize) = (0, 0);

fn index_op_bad<T: 'static>(op: usize, typed: bool, mk: fn() -> T) {
    ghost_init();
    let (len, cap) = sym_state();
    let mut v = unsafe { mk_vec::<dyn None, T>(0, len, cap, false, true) };
    reg(&v, 0);
    unsafe { *core::ptr::addr_of_mut!(OOB) = (len, cap); }
    let i: usize = kani::any();
    kani::assume(if op == 2 { i > len } else { i >= len });
    g().armed = true;
    if typed {
        let mut t = v.downcast_mut::<T>().unwrap();
        if op == 0 { core::mem::forget(t.remove(i)); } else if op == 1 { core::mem::forget(t.swap_remove(i)); } else { t.insert(i, mk()); }
    } else if op == 0 { core::mem::forget(v.remove(i)); }
    else if op == 1 { core::mem::forget(v.swap_remove(i)); }
    else { v.insert(i, AnyValueWrapper::new(mk())); }
    kani::cover!(true, "RETURNED");
}

/// pop / get on an empty vector / out of range index: None, nothing touched
fn none_ops<T: 'static>() {
    ghost_init();
    let (len, cap) = sym_state();
    let mut v = unsafe { mk_vec::<dyn None, T>(0, len, cap, false, true) };
    reg(&v, 0);
    let i: usize = kani::any();
    kani::assume(i >= len);
    g().armed = true;
    kani::assert(v.get(i).is_none() && v.get_mut(i).is_none(), "get/get_mut out of range: None");
    if len == 0 {
        kani::assert(v.pop().is_none(), "pop on an empty vector: None");
        kani::assert(v.downcast_mut::<T>().unwrap().pop().is_none(), "typed pop on an empty vector: None");
    }
    kani::assert(v.len() == len && v.capacity() == cap, "None results leave the vector unchanged");
    kani::cover!(len == 0, "COV empty");
    kani::cover!(true, "REACHED");
    core::mem::forget(v);
}

/// push / insert beyond a fixed capacity: expected panic ("Can't change capacity!"), contents unchanged
fn fixed_overflow<T: 'static>(push: bool, typed: bool, mk: fn() -> T) {
    ghost_init();
    let (len, cap) = sym_state();
    kani::assume(len == cap);
    let mut v = unsafe { mk_vec::<dyn None, T>(0, len, cap, true, true) };
    reg(&v, 0);
    let i = any_narrow();
    kani::assume(i <= len);
    g().armed = true;
    g().panic_len_on = true;
    g().panic_len = len;
    if typed {
        let mut t = v.downcast_mut::<T>().unwrap();
        if push { t.push(mk()) } else { t.insert(i, mk()) }
    } else if push { v.push(AnyValueWrapper::new(mk())) } else { v.insert(i, AnyValueWrapper::new(mk())) }
    kani::cover!(true, "RETURNED");
}

include!("k1_misc.inst.rs");

