//! K1/K2: runtime type checks (C04): wrong types are never admitted, downcasts succeed exactly for
//! the real type, reports describe the real element type.
use core::alloc::Layout;
use core::any::TypeId;
use core::mem::{size_of, MaybeUninit};
use core::ptr::NonNull;
use crate::{AnyVec, RawParts};
use crate::any_value::{AnyValue, AnyValueMut, AnyValueRaw, AnyValueWrapper, AnyValueSizeless, AnyValueTypeless};
use crate::any_vec_raw::DropFn;
use crate::clone_type::CloneFn;
use crate::traits::None;
use super::ghost::*;
use super::types::*;
use super::util::*;

/// the type set of the property: same-size/same-align group {u64,i64,f64,[u8;8]} plus u8 and ()
pub fn pick_tid(i: u8) -> TypeId {
    match i {
        0 => TypeId::of::<u64>(),
        1 => TypeId::of::<i64>(),
        2 => TypeId::of::<f64>(),
        3 => TypeId::of::<[u8; 8]>(),
        4 => TypeId::of::<u8>(),
        _ => TypeId::of::<()>(),
    }
}
fn pick_size(i: u8) -> usize { if i <= 3 { 8 } else if i == 4 { 1 } else { 0 } }

/// a ghost vector whose element type is chosen symbolically among the 8-byte group
unsafe fn mk_vec8(k: usize, len: usize, cap: usize, vt: u8) -> AnyVec<dyn None, GhostB> {
    region_new(k, cap, 8, false);
    g().v[k].builds = 1;
    AnyVec::from_raw_parts(RawParts {
        mem_builder: GhostB { k: k + 1, fixed: false, build_cap: 0 },
        mem_handle: GhostHandle { k },
        capacity: cap,
        len,
        element_layout: Layout::new::<u64>(),
        element_typeid: pick_tid(vt),
        element_drop: Some(rec_drop as DropFn),
        element_clone: rec_clone as CloneFn,
    })
}

/// Observing twin of `crate::assert_types_equal`: at the moment the type check refuses a value the vector
/// is provably unchanged (length, capacity, no storage effect). Kani has no unwinding, so this is where
/// "after push / insert the vector is unchanged" is asserted.
pub static mut TSNAP: (bool, usize, usize) = (false, 0, 0);
pub fn obs_assert_types_equal(t1: TypeId, t2: TypeId) {
    if t1 != t2 {
        let st = unsafe { &*core::ptr::addr_of!(TSNAP) };
        if st.0 {
            kani::assert(cur_len(0) == st.1 && g().v[0].cap == st.2 && g().n_moves == 0 && g().total_destroyed == 0 && g().v[0].cap_changes == 0,
                "wrong runtime type: the vector is unchanged when the type check refuses the value");
        }
        panic!("Type mismatch!");
    }
}

/// push / insert of a raw value of a different runtime type: expected panic, vector untouched
fn admit_mismatch_raw(push: bool) {
    ghost_init();
    let (len, cap) = sym_state();
    let vt: u8 = kani::any();
    let ot: u8 = kani::any();
    kani::assume(vt <= 3 && ot <= 5 && vt != ot);
    let mut v = unsafe { mk_vec8(0, len, cap, vt) };
    reg(&v, 0);
    let mut ext = MaybeUninit::<u64>::uninit();
    let val = unsafe { AnyValueRaw::new(NonNull::new_unchecked(ext.as_mut_ptr() as *mut u8), pick_size(ot), pick_tid(ot)) };
    let index = any_narrow();
    kani::assume(index <= len);
    g().armed = true;
    unsafe { *core::ptr::addr_of_mut!(TSNAP) = (true, len, cap); }
    if push { v.push(val) } else { v.insert(index, val) }
    kani::cover!(true, "RETURNED");
}

/// push / insert of an owned wrapper of a different static type O
fn admit_mismatch_wrapper<O: 'static>(push: bool, mk: fn() -> O) {
    ghost_init();
    let (len, cap) = sym_state();
    let vt: u8 = kani::any();
    kani::assume(vt <= 3 && pick_tid(vt) != TypeId::of::<O>());
    let mut v = unsafe { mk_vec8(0, len, cap, vt) };
    reg(&v, 0);
    let index = any_narrow();
    kani::assume(index <= len);
    g().armed = true;
    unsafe { *core::ptr::addr_of_mut!(TSNAP) = (true, len, cap); }
    let val = AnyValueWrapper::new(mk());
    if push { v.push(val) } else { v.insert(index, val) }
    kani::cover!(true, "RETURNED");
}

/// splice whose r-th replacement has the wrong type: panics; at that point the vector is valid
pub struct MixRepl { pub i: usize, pub bad_at: usize, pub p: *mut u8, pub good: TypeId, pub bad: TypeId }
impl Iterator for MixRepl {
    type Item = AnyValueRaw;
    fn next(&mut self) -> Option<AnyValueRaw> {
        callout_invariant();
        kani::assert(cur_len(0) <= g().v[0].cap, "splice: vector valid whenever the replacement iterator runs");
        if self.i >= 3 { return Option::None; }
        let t = if self.i == self.bad_at { self.bad } else { self.good };
        self.i += 1;
        Some(unsafe { AnyValueRaw::new(NonNull::new_unchecked(self.p), 8, t) })
    }
}
impl ExactSizeIterator for MixRepl { fn len(&self) -> usize { 3 - self.i } }

fn splice_mismatch_h() {
    ghost_init();
    let (len, cap) = sym_state();
    let vt: u8 = kani::any();
    let ot: u8 = kani::any();
    kani::assume(vt <= 3 && ot <= 3 && vt != ot);
    let mut v = unsafe { mk_vec8(0, len, cap, vt) };
    reg(&v, 0);
    let w = any_narrow();
    kani::assume(w < len || len == 0);
    if len > 0 { tok_init(TW, 8); tok_place(TW, base(0) + w * 8); }
    let start = any_narrow();
    let end = any_narrow();
    kani::assume(start <= end && end <= len);
    let bad_at: usize = kani::any();
    kani::assume(bad_at < 3);
    let mut ext = MaybeUninit::<u64>::uninit();
    let repl = MixRepl { i: 0, bad_at, p: ext.as_mut_ptr() as *mut u8, good: pick_tid(vt), bad: pick_tid(ot) };
    drop(v.splice(start..end, repl));
    kani::cover!(true, "RETURNED");
}

/// swap of two value handles of different runtime types: expected panic before any byte moves
pub unsafe fn forbid_swap<T>(_a: &mut T, _b: &mut T) { kani::assert(false, "swap: no byte moves before the type check"); }
pub unsafe fn forbid_swap_no<T>(_a: *mut T, _b: *mut T, _n: usize) { kani::assert(false, "swap: no byte moves before the type check"); }
fn swap_mismatch_h() {
    let at: u8 = kani::any();
    let bt: u8 = kani::any();
    kani::assume(at <= 3 && bt <= 3 && at != bt);
    let mut x = 1u64;
    let mut y = 2u64;
    let mut a = unsafe { AnyValueRaw::new(NonNull::from(&mut x).cast::<u8>(), 8, pick_tid(at)) };
    let mut b = unsafe { AnyValueRaw::new(NonNull::from(&mut y).cast::<u8>(), 8, pick_tid(bt)) };
    a.swap(&mut b);
    kani::cover!(true, "RETURNED");
}
fn swap_mismatch_wrapper_h() {
    let bt: u8 = kani::any();
    kani::assume(bt <= 3 && bt != 0);
    let mut y = 2u64;
    let mut a = AnyValueWrapper::new(7u64);
    let mut b = unsafe { AnyValueRaw::new(NonNull::from(&mut y).cast::<u8>(), 8, pick_tid(bt)) };
    if kani::any() { a.swap(&mut b) } else { b.swap(&mut a) }
    kani::cover!(true, "RETURNED");
}

/// downcasts of the vector, of an element handle and of a raw value handle to a static type T:
/// Some exactly when T is the real type
fn downcast_table<T: 'static>() {
    ghost_init();
    let (len, cap) = sym_state();
    let vt: u8 = kani::any();
    kani::assume(vt <= 3);
    let mut v = unsafe { mk_vec8(0, len, cap, vt) };
    reg(&v, 0);
    let same = pick_tid(vt) == TypeId::of::<T>();
    kani::assert(v.element_typeid() == pick_tid(vt), "element_typeid reports the real element type");
    kani::assert(v.element_layout() == Layout::new::<u64>(), "element_layout reports the real element layout");
    kani::assert(v.downcast_ref::<T>().is_some() == same, "AnyVec::downcast_ref::<T> is Some exactly for the real element type");
    kani::assert(v.downcast_mut::<T>().is_some() == same, "AnyVec::downcast_mut::<T> is Some exactly for the real element type");
    let i = any_narrow();
    kani::assume(i < len);
    if len > 0 {
        {
            let e = v.at(i);
            kani::assert(e.value_typeid() == pick_tid(vt) && e.size() == 8, "element handle reports the real type and size");
            kani::assert(e.downcast_ref::<T>().is_some() == same, "ElementPointer::downcast_ref::<T> is Some exactly for the real type");
            kani::assert(AnyValue::downcast_ref::<T>(&*e).is_some() == same, "AnyValue::downcast_ref::<T> on an element is Some exactly for the real type");
        }
        {
            let mut e = v.at_mut(i);
            kani::assert(e.downcast_mut::<T>().is_some() == same, "ElementPointer::downcast_mut::<T> is Some exactly for the real type");
            kani::assert(AnyValueMut::downcast_mut::<T>(&mut *e).is_some() == same, "AnyValueMut::downcast_mut::<T> is Some exactly for the real type");
        }
    }
    // a raw value handle of symbolic type
    let ot: u8 = kani::any();
    kani::assume(ot <= 5);
    let mut buf = MaybeUninit::<u64>::uninit();
    let mut r = unsafe { AnyValueRaw::new(NonNull::new_unchecked(buf.as_mut_ptr() as *mut u8), pick_size(ot), pick_tid(ot)) };
    let same_o = pick_tid(ot) == TypeId::of::<T>();
    kani::assert(r.value_typeid() == pick_tid(ot) && r.size() == pick_size(ot), "raw value handle reports its type and size");
    kani::assert(r.downcast_ref::<T>().is_some() == same_o, "AnyValue::downcast_ref::<T> is Some exactly for the real type");
    kani::assert(r.downcast_mut::<T>().is_some() == same_o, "AnyValueMut::downcast_mut::<T> is Some exactly for the real type");
    kani::cover!(same && len > 0, "COV matching type");
    kani::cover!(!same && len > 0, "COV other type");
    kani::cover!(true, "REACHED");
    core::mem::forget(v);
}

/// `downcast` (by value) of a removal handle to T: Some exactly for the real type; a refused
/// handle is dropped as a handle (destroys the element once, the vector stays consistent)
fn downcast_handle<T: 'static>() {
    ghost_init();
    let (len, cap) = sym_state();
    kani::assume(len >= 1);
    let vt: u8 = kani::any();
    kani::assume(vt <= 3);
    let mut v = unsafe { mk_vec8(0, len, cap, vt) };
    reg(&v, 0);
    let same = pick_tid(vt) == TypeId::of::<T>();
    let i = any_narrow();
    kani::assume(i < len);
    let h = v.remove(i);
    kani::assert(h.value_typeid() == pick_tid(vt) && h.size() == 8, "removal handle reports the real type and size");
    let r = h.downcast::<T>();
    kani::assert(r.is_some() == same, "AnyValue::downcast::<T> of a removal handle is Some exactly for the real type");
    core::mem::forget(r);
    kani::assert(v.len() == len - 1, "downcast of a removal handle completes the removal either way");
    kani::assert(g().total_destroyed == if same { 0 } else { 1 } && g().out_count == if same { 1 } else { 0 },
        "a refused value is destroyed exactly once, an accepted one is moved out exactly once");
    kani::cover!(same, "COV matching type");
    kani::cover!(!same, "COV other type");
    kani::cover!(true, "REACHED");
    core::mem::forget(v);
}

pub fn mk_u64() -> u64 { 0 }
pub fn mk_i64() -> i64 { 0 }
pub fn mk_f64() -> f64 { 0.0 }
pub fn mk_a8() -> [u8; 8] { [0; 8] }
pub fn mk_u8() -> u8 { 0 }
pub fn mk_unit() -> () { () }

include!("k1_types.inst.rs");
