//! Harness helpers: symbolic vector states over the ghost backend.
use core::alloc::Layout;
use core::any::TypeId;
use core::mem::size_of;
use crate::{AnyVec, RawParts};
use crate::any_vec_raw::DropFn;
use crate::clone_type::CloneFn;
use crate::traits::Trait;
use super::ghost::*;

pub fn rec_drop_fn() -> DropFn { rec_drop }
pub fn rec_clone_fn() -> CloneFn { rec_clone }

/// Domain of the symbolic vector states: `len <= cap <= 2^(DOM_BITS-1)`. 21 (cap <= 2^20) unless a harness
/// instance lowers it with `set_domain` (then it is a *bounded* stand-in and registered as such).
pub static mut DOM_BITS: u32 = 21;
pub fn set_domain(bits: u32) { unsafe { DOM_BITS = bits; } }
fn dom_bits() -> u32 { unsafe { DOM_BITS } }

/// A symbolic `usize` that is *structurally* at most DOM_BITS wide: the upper bits are constant zero,
/// which keeps products with the element size narrow for the SAT back end.
pub fn any_narrow() -> usize {
    (kani::any::<u32>() & ((1u32 << dom_bits()) - 1)) as usize
}

/// symbolic (len, cap) with len <= cap <= 2^(DOM_BITS-1)  (= CAPMAX for the default domain)
pub fn sym_state() -> (usize, usize) {
    let len = any_narrow();
    let cap = any_narrow();
    kani::assume(len <= cap && cap <= (1usize << (dom_bits() - 1)));
    (len, cap)
}

/// A ghost-backed vector of element type `T` in an arbitrary state `(len, cap)`.
/// Built through the real `from_raw_parts` (contract: C17 harnesses).
/// `drop`: whether the element type has drop glue (the destructor is the recorder).
pub unsafe fn mk_vec<Tr: ?Sized + Trait, T: 'static>(k: usize, len: usize, cap: usize, fixed: bool, drop: bool)
    -> AnyVec<Tr, GhostB>
{
    region_new(k, cap, size_of::<T>(), fixed);
    let gh = g();
    gh.v[k].builds = 1;
    gh.v[k].build_size = size_of::<T>();
    gh.v[k].build_align = core::mem::align_of::<T>();
    AnyVec::from_raw_parts(RawParts {
        mem_builder: GhostB { k: k + 1, fixed, build_cap: g().next_build_cap },
        mem_handle: GhostHandle { k },
        capacity: cap,
        len,
        element_layout: Layout::new::<T>(),
        element_typeid: TypeId::of::<T>(),
        element_drop: if drop { Some(rec_drop as DropFn) } else { None },
        element_clone: rec_clone as CloneFn,
    })
}

/// Register where the ghost can read vector `k`'s current length. Call once the vector is at its
/// final place (it must not be moved afterwards).
pub fn reg<Tr: ?Sized + Trait>(v: &AnyVec<Tr, GhostB>, k: usize) {
    g().v[k].len_ptr = &v.raw.len as *const usize;
}

pub fn base(k: usize) -> usize { g().v[k].base }

/// Place witness token `t` on slot `w` (symbolic, `< len`) of vector `k`; returns `w`.
pub fn witness_slot(t: usize, k: usize, len: usize) -> usize {
    let w = any_narrow();
    kani::assume(w < len);
    let esz = g().esz;
    tok_init(t, esz);
    tok_place(t, g().v[k].base + w * esz);
    w
}

/// Watch a symbolic uninitialised slot `u` in `len..cap` of vector `k` (if there is one).
pub fn watch_uninit(k: usize, len: usize, cap: usize) {
    let u = any_narrow();
    if len < cap && g().esz != 0 {
        kani::assume(len <= u && u < cap);
        g().uninit_on = true;
        g().uninit_at = g().v[k].base + u * g().esz;
    }
}

/// Observation of token `t` in vector `k` at length `len`, relative to the position `pos` the
/// contract expects: (visible count, observed position, aligned, destroyed, out).  The observed
/// position is `pos` when the visible copy sits exactly on slot `pos`, else usize::MAX (no division).
pub fn obs(t: usize, k: usize, len: usize, pos: usize) -> (usize, usize, bool, usize, usize) {
    let (n, rel) = tok_visible_in(t, k, len);
    let hit = n >= 1 && pos <= CAPMAX * 2 && rel == pos * g().esz;
    (n, if hit { pos } else { usize::MAX }, hit || n == 0, g().t[t].destroyed, g().t[t].out)
}

/// Same, for the leak-tolerant contracts (C06/C07) that do not prescribe a position: `aligned`
/// is true alignment of the visible copy to a slot boundary.
pub fn obs_any(t: usize, k: usize, len: usize) -> (usize, bool, usize, usize) {
    let (n, rel) = tok_visible_in(t, k, len);
    let e = g().esz;
    let aligned = n == 0 || e == 0 || rel % e == 0;
    (n, aligned, g().t[t].destroyed, g().t[t].out)
}

/// Arithmetic lemma injection (sound: proved for all naturals by the Verus lemma `lemma_mul_mono`,
/// and no product overflows for a, b <= 2^21, esz <= 2^8): multiplication by the element size is
/// strictly monotone. It hands the SAT back end the order facts it cannot derive cheaply.
pub fn lemma_mono(a: usize, b: usize) {
    let e = g().esz;
    if e != 0 {
        kani::assume((a < b) == (a * e < b * e));
        kani::assume((a == b) == (a * e == b * e));
    }
}

pub fn lemma_add(a: usize, b: usize) {
    let e = g().esz;
    kani::assume(a * e + b * e == (a + b) * e);
}
pub fn lemma_succ(a: usize) {
    let e = g().esz;
    kani::assume(a * e + e == (a + 1) * e);
}
