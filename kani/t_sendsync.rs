//! C15: Send / Sync / Clone judgements of the real public types, as constant obligations.
//! `impls!(T: Trait)` is decided by rustc's trait solver over the crate's own (unsafe) impls; Kani
//! only discharges the resulting constant assertions.
use core::cell::Cell;
use core::marker::PhantomData;
use core::alloc::Layout;
use crate::{AnyVec, AnyVecMut, AnyVecRef, AnyVecTyped, IterMut, IterRef, SatisfyTraits};
use crate::any_value::{AnyValueCloneable, AnyValueWrapper, LazyClone};
use crate::any_vec_ptr::AnyVecRawPtr;
use crate::element::{Element, ElementMut, ElementRef};
use crate::mem::{Empty, Mem, MemBuilder, MemBuilderSizeable, MemResizable, MemRawParts, Stack, StackN};
use crate::ops::{Drain, Pop, Remove, Splice, SwapRemove};
use crate::traits::{Cloneable, None};

macro_rules! impls {
    ($t:ty : $($tr:tt)+) => {{
        struct Check<T: ?Sized>(PhantomData<T>);
        trait Fallback { const V: bool = false; }
        impl<T: ?Sized> Fallback for Check<T> {}
        #[allow(dead_code)]
        impl<T: ?Sized + $($tr)+> Check<T> { const V: bool = true; }
        <Check<$t>>::V
    }};
}
macro_rules! cell {
    ($t:ty : $tr:ident == $exp:expr) => {
        // each cell sits on its own path, so one failing cell does not hide the cells after it
        kani::cover(!(impls!($t: $tr) == ($exp)), concat!("NEG ", "C15: [", stringify!($t), ": ", stringify!($tr), "] == ", stringify!($exp)));
    };
}
macro_rules! only_if {
    ($h:ty : $tr:ident => $r:ty) => {
        kani::cover(!(!impls!($h: $tr) || impls!($r: $tr)), concat!("NEG ", "C15: [", stringify!($h), ": ", stringify!($tr), "] only if [", stringify!($r), ": ", stringify!($tr), "]"));
    };
}

// user backends with restricted thread-safety
#[derive(Clone, Copy, Default)] pub struct BNoSend(PhantomData<*const u8>);
unsafe impl Sync for BNoSend {}
#[derive(Clone, Copy, Default)] pub struct BNoSync(PhantomData<Cell<u8>>);
#[derive(Clone, Copy, Default)] pub struct BMemNoSend;
#[derive(Clone, Copy, Default)] pub struct BMemNoSync;
pub struct MNoSend(Layout, PhantomData<*const u8>);
unsafe impl Sync for MNoSend {}
pub struct MNoSync(Layout, PhantomData<Cell<u8>>);
pub struct MOk(Layout);
macro_rules! mem_impl { ($m:ty) => { impl Mem for $m {
    fn as_ptr(&self) -> *const u8 { core::ptr::null() }
    fn as_mut_ptr(&mut self) -> *mut u8 { core::ptr::null_mut() }
    fn element_layout(&self) -> Layout { self.0 }
    fn size(&self) -> usize { 0 }
} } }
mem_impl!(MNoSend); mem_impl!(MNoSync); mem_impl!(MOk);
impl MemBuilder for BNoSend { type Mem = MOk; fn build(&mut self, l: Layout) -> MOk { MOk(l) } }
impl MemBuilder for BNoSync { type Mem = MOk; fn build(&mut self, l: Layout) -> MOk { MOk(l) } }
impl MemBuilder for BMemNoSend { type Mem = MNoSend; fn build(&mut self, l: Layout) -> MNoSend { MNoSend(l, PhantomData) } }
impl MemBuilder for BMemNoSync { type Mem = MNoSync; fn build(&mut self, l: Layout) -> MNoSync { MNoSync(l, PhantomData) } }

// element classes
pub struct SendOnly(Cell<u8>);
pub struct SyncOnly(*const u8);
unsafe impl Sync for SyncOnly {}
pub struct Neither(*const u8);
#[derive(Clone)] pub struct Cl(u8);
pub struct NoCl(u8);

/// a vector is Send (Sync) exactly when its constraint set includes Send (Sync) and its backend is Send (Sync)
macro_rules! vec_rows {
    ($tr:ty, $send:expr, $sync:expr, $clone:expr; $($b:ty),+) => { $(
        cell!(AnyVec<$tr, $b>: Send == $send && impls!($b: Send) && impls!(<$b as MemBuilder>::Mem: Send));
        cell!(AnyVec<$tr, $b>: Sync == $sync && impls!($b: Sync) && impls!(<$b as MemBuilder>::Mem: Sync));
        cell!(AnyVec<$tr, $b>: Clone == $clone);
    )+ };
}
macro_rules! all_backends { ($m:ident!($($a:tt)*)) => {
    #[cfg(feature = "alloc")]
    $m!($($a)*; crate::mem::Heap);
    $m!($($a)*; Stack<8>, StackN<1, 8>, Empty, BNoSend, BNoSync, BMemNoSend, BMemNoSync);
} }

fn t_vectors_h() {
    all_backends!(vec_rows!(dyn None, false, false, false));
    all_backends!(vec_rows!(dyn Send, true, false, false));
    all_backends!(vec_rows!(dyn Sync, false, true, false));
    all_backends!(vec_rows!(dyn Send + Sync, true, true, false));
    all_backends!(vec_rows!(dyn Cloneable, false, false, true));
    all_backends!(vec_rows!(dyn Cloneable + Send, true, false, true));
    all_backends!(vec_rows!(dyn Cloneable + Sync, false, true, true));
    all_backends!(vec_rows!(dyn Cloneable + Send + Sync, true, true, true));
    // the judgements the vector rows rest on
    cell!(BNoSend: Send == false); cell!(BNoSend: Sync == true);
    cell!(BNoSync: Send == true); cell!(BNoSync: Sync == false);
    cell!(MNoSend: Send == false); cell!(MNoSync: Sync == false);
    cell!(Stack<8>: Send == true); cell!(<Stack<8> as MemBuilder>::Mem: Send == true); cell!(<Stack<8> as MemBuilder>::Mem: Sync == true);
    cell!(<StackN<1, 8> as MemBuilder>::Mem: Send == true); cell!(<Empty as MemBuilder>::Mem: Sync == true);
    kani::cover!(true, "REACHED");
}

/// an element type lacking a declared constraint is rejected (T: SatisfyTraits<Tr> does not hold)
macro_rules! elem_rows {
    ($t:ty, $send:expr, $sync:expr, $clone:expr) => {
        kani::cover(!(impls!($t: SatisfyTraits<dyn None>)), concat!("NEG ", "C15: [", stringify!($t), ": SatisfyTraits<dyn None>]"));
        kani::cover(!(impls!($t: SatisfyTraits<dyn Send>) == $send), concat!("NEG ", "C15: [", stringify!($t), ": SatisfyTraits<dyn Send>] == ", stringify!($send)));
        kani::cover(!(impls!($t: SatisfyTraits<dyn Sync>) == $sync), concat!("NEG ", "C15: [", stringify!($t), ": SatisfyTraits<dyn Sync>] == ", stringify!($sync)));
        kani::cover(!(impls!($t: SatisfyTraits<dyn Send + Sync>) == ($send && $sync)), concat!("NEG ", "C15: [", stringify!($t), ": SatisfyTraits<dyn Send + Sync>]"));
        kani::cover(!(impls!($t: SatisfyTraits<dyn Cloneable>) == $clone), concat!("NEG ", "C15: [", stringify!($t), ": SatisfyTraits<dyn Cloneable>] == ", stringify!($clone)));
        kani::cover(!(impls!($t: SatisfyTraits<dyn Cloneable + Send>) == ($clone && $send)), concat!("NEG ", "C15: [", stringify!($t), ": SatisfyTraits<dyn Cloneable + Send>]"));
        kani::cover(!(impls!($t: SatisfyTraits<dyn Cloneable + Sync>) == ($clone && $sync)), concat!("NEG ", "C15: [", stringify!($t), ": SatisfyTraits<dyn Cloneable + Sync>]"));
        kani::cover(!(impls!($t: SatisfyTraits<dyn Cloneable + Send + Sync>) == ($clone && $send && $sync)), concat!("NEG ", "C15: [", stringify!($t), ": SatisfyTraits<dyn Cloneable + Send + Sync>]"));
    };
}
fn t_elements_h() {
    elem_rows!(u8, true, true, true);
    elem_rows!(SendOnly, true, false, false);
    elem_rows!(SyncOnly, false, true, false);
    elem_rows!(Neither, false, false, false);
    elem_rows!(Cl, true, true, true);
    elem_rows!(NoCl, true, true, false);
    elem_rows!(Cell<u8>, true, false, true);
    // capabilities exist only for backends that support them
    #[cfg(feature = "alloc")]
    {
        cell!(<crate::mem::Heap as MemBuilder>::Mem: MemResizable == true);
        cell!(crate::mem::Heap: MemBuilderSizeable == true);
        cell!(<crate::mem::Heap as MemBuilder>::Mem: MemRawParts == true);
    }
    cell!(<Stack<8> as MemBuilder>::Mem: MemResizable == false);
    cell!(<StackN<1, 8> as MemBuilder>::Mem: MemResizable == false);
    cell!(<Empty as MemBuilder>::Mem: MemResizable == false);
    cell!(Stack<8>: MemBuilderSizeable == false);
    cell!(StackN<1, 8>: MemBuilderSizeable == false);
    cell!(Empty: MemBuilderSizeable == false);
    cell!(<Empty as MemBuilder>::Mem: MemRawParts == true);
    cell!(<Stack<8> as MemBuilder>::Mem: MemRawParts == false);
    kani::cover!(true, "REACHED");
}

type Repl = core::iter::Empty<AnyValueWrapper<u8>>;
/// every view / handle / iterator can be sent (shared) only when the corresponding kind of
/// reference to the vector could
macro_rules! handle_rows {
    ($tr:ty; $($b:ty),+) => { $(
        // shared kind
        only_if!(ElementRef<'static, $tr, $b>: Send => &'static AnyVec<$tr, $b>);
        only_if!(ElementRef<'static, $tr, $b>: Sync => &'static AnyVec<$tr, $b>);
        only_if!(IterRef<'static, $tr, $b>: Send => &'static AnyVec<$tr, $b>);
        only_if!(IterRef<'static, $tr, $b>: Sync => &'static AnyVec<$tr, $b>);
        // exclusive kind
        only_if!(ElementMut<'static, $tr, $b>: Send => &'static mut AnyVec<$tr, $b>);
        only_if!(ElementMut<'static, $tr, $b>: Sync => &'static mut AnyVec<$tr, $b>);
        only_if!(Element<'static, $tr, $b>: Send => &'static mut AnyVec<$tr, $b>);
        only_if!(Element<'static, $tr, $b>: Sync => &'static mut AnyVec<$tr, $b>);
        only_if!(IterMut<'static, $tr, $b>: Send => &'static mut AnyVec<$tr, $b>);
        only_if!(IterMut<'static, $tr, $b>: Sync => &'static mut AnyVec<$tr, $b>);
        only_if!(Pop<'static, $tr, $b>: Send => &'static mut AnyVec<$tr, $b>);
        only_if!(Pop<'static, $tr, $b>: Sync => &'static mut AnyVec<$tr, $b>);
        only_if!(Remove<'static, $tr, $b>: Send => &'static mut AnyVec<$tr, $b>);
        only_if!(Remove<'static, $tr, $b>: Sync => &'static mut AnyVec<$tr, $b>);
        only_if!(SwapRemove<'static, $tr, $b>: Send => &'static mut AnyVec<$tr, $b>);
        only_if!(SwapRemove<'static, $tr, $b>: Sync => &'static mut AnyVec<$tr, $b>);
        only_if!(Drain<'static, $tr, $b>: Send => &'static mut AnyVec<$tr, $b>);
        only_if!(Drain<'static, $tr, $b>: Sync => &'static mut AnyVec<$tr, $b>);
        only_if!(Splice<'static, $tr, $b, Repl>: Send => &'static mut AnyVec<$tr, $b>);
        only_if!(Splice<'static, $tr, $b, Repl>: Sync => &'static mut AnyVec<$tr, $b>);
    )+ };
}
macro_rules! lazy_rows {
    ($tr:ty; $($b:ty),+) => { $(
        only_if!(LazyClone<'static, Element<'static, $tr, $b>>: Send => &'static AnyVec<$tr, $b>);
        only_if!(LazyClone<'static, Element<'static, $tr, $b>>: Sync => &'static AnyVec<$tr, $b>);
        only_if!(LazyClone<'static, Pop<'static, $tr, $b>>: Send => &'static AnyVec<$tr, $b>);
    )+ };
}
macro_rules! typed_rows {
    ($t:ty; $($b:ty),+) => { $(
        only_if!(AnyVecRef<'static, $t, $b>: Send => &'static [$t]);
        only_if!(AnyVecRef<'static, $t, $b>: Sync => &'static [$t]);
        only_if!(AnyVecMut<'static, $t, $b>: Send => &'static mut [$t]);
        only_if!(AnyVecMut<'static, $t, $b>: Sync => &'static mut [$t]);
        only_if!(AnyVecRef<'static, $t, $b>: Send => &'static $b);
        only_if!(AnyVecMut<'static, $t, $b>: Send => &'static mut $b);
    )+ };
}
/// the iterators behind the typed view (`AnyVecTyped::{drain, splice}` run the same range iterators over a
/// raw typed pointer): sendable / shareable only when the typed view itself is
macro_rules! typed_iter_rows {
    ($t:ty; $($b:ty),+) => { $(
        only_if!(crate::iter::Iter<'static, AnyVecRawPtr<$t, $b>>: Send => &'static mut [$t]);
        only_if!(crate::iter::Iter<'static, AnyVecRawPtr<$t, $b>>: Sync => &'static [$t]);
        only_if!(crate::iter::Iter<'static, AnyVecRawPtr<$t, $b>>: Send => AnyVecTyped<'static, $t, $b>);
        only_if!(crate::iter::Iter<'static, AnyVecRawPtr<$t, $b>>: Sync => AnyVecTyped<'static, $t, $b>);
        only_if!(crate::ops::Iter<crate::ops::drain::Drain<'static, AnyVecRawPtr<$t, $b>>>: Send => &'static mut [$t]);
        only_if!(crate::ops::Iter<crate::ops::drain::Drain<'static, AnyVecRawPtr<$t, $b>>>: Sync => &'static [$t]);
        only_if!(crate::ops::Iter<crate::ops::drain::Drain<'static, AnyVecRawPtr<$t, $b>>>: Send => AnyVecTyped<'static, $t, $b>);
        only_if!(crate::ops::Iter<crate::ops::splice::Splice<'static, AnyVecRawPtr<$t, $b>, core::iter::Empty<AnyValueWrapper<$t>>>>: Send => &'static mut [$t]);
        only_if!(crate::ops::Iter<crate::ops::splice::Splice<'static, AnyVecRawPtr<$t, $b>, core::iter::Empty<AnyValueWrapper<$t>>>>: Send => AnyVecTyped<'static, $t, $b>);
    )+ };
}
/// clone capability of value handles: a handle offers `lazy_clone` / `clone_into` exactly when its vector declares
/// `Cloneable` ("clone() exists only with Cloneable", mirrored by every handle)
macro_rules! cloneable_rows {
    ($tr:ty, $clone:expr; $($b:ty),+) => { $(
        cell!(Element<'static, $tr, $b>: AnyValueCloneable == $clone);
        cell!(Pop<'static, $tr, $b>: AnyValueCloneable == $clone);
        cell!(Remove<'static, $tr, $b>: AnyValueCloneable == $clone);
        cell!(SwapRemove<'static, $tr, $b>: AnyValueCloneable == $clone);
    )+ };
}
fn t_handles2_h() {
    all_backends!(typed_iter_rows!(u8));
    all_backends!(typed_iter_rows!(SendOnly));
    all_backends!(typed_iter_rows!(SyncOnly));
    all_backends!(typed_iter_rows!(Neither));
    all_backends!(cloneable_rows!(dyn None, false));
    all_backends!(cloneable_rows!(dyn Send, false));
    all_backends!(cloneable_rows!(dyn Send + Sync, false));
    all_backends!(cloneable_rows!(dyn Cloneable, true));
    all_backends!(cloneable_rows!(dyn Cloneable + Send, true));
    all_backends!(cloneable_rows!(dyn Cloneable + Send + Sync, true));
    cell!(crate::ops::Iter<crate::ops::drain::Drain<'static, AnyVecRawPtr<u8, Stack<8>>>>: Send == true);
    kani::cover!(true, "REACHED");
}

fn t_handles_h() {
    all_backends!(handle_rows!(dyn None));
    all_backends!(handle_rows!(dyn Send));
    all_backends!(handle_rows!(dyn Sync));
    all_backends!(handle_rows!(dyn Send + Sync));
    all_backends!(handle_rows!(dyn Cloneable));
    all_backends!(handle_rows!(dyn Cloneable + Send));
    all_backends!(handle_rows!(dyn Cloneable + Sync));
    all_backends!(handle_rows!(dyn Cloneable + Send + Sync));
    all_backends!(lazy_rows!(dyn Cloneable));
    all_backends!(lazy_rows!(dyn Cloneable + Send));
    all_backends!(lazy_rows!(dyn Cloneable + Sync));
    all_backends!(lazy_rows!(dyn Cloneable + Send + Sync));
    all_backends!(typed_rows!(u8));
    all_backends!(typed_rows!(SendOnly));
    all_backends!(typed_rows!(SyncOnly));
    all_backends!(typed_rows!(Neither));
    // the positive direction for fully thread-safe vectors (handles are not needlessly restricted)
    cell!(ElementRef<'static, dyn Send + Sync, Stack<8>>: Send == true);
    cell!(ElementMut<'static, dyn Send + Sync, Stack<8>>: Send == true);
    cell!(IterRef<'static, dyn Send + Sync, Stack<8>>: Sync == true);
    cell!(Drain<'static, dyn Send + Sync, Stack<8>>: Send == true);
    cell!(AnyVecMut<'static, u8, Stack<8>>: Send == true);
    kani::cover!(true, "REACHED");
}

include!("t_sendsync.inst.rs");
