//! K1: the real `mem::heap::{Heap, HeapMem}` against an allocator-protocol model (C18, C10, C12, C17).
//! `alloc::alloc::{alloc, realloc, dealloc}` are replaced by the model below, which asserts the
//! GlobalAlloc caller obligations and records the single live block.
extern crate alloc;
use core::alloc::Layout;
use core::mem::{align_of, size_of};
use crate::mem::{Heap, Mem, MemBuilder, MemBuilderSizeable, MemRawParts, MemResizable};
use super::types::*;

type HM = <Heap as MemBuilder>::Mem;

pub struct AllocModel {
    pub live: bool,
    pub ptr: usize,
    pub size: usize,
    pub align: usize,
    pub allocs: usize,
    pub reallocs: usize,
    pub deallocs: usize,
}
pub static mut AM: AllocModel = AllocModel { live: false, ptr: 0, size: 0, align: 0, allocs: 0, reallocs: 0, deallocs: 0 };
fn am() -> &'static mut AllocModel { unsafe { &mut *core::ptr::addr_of_mut!(AM) } }
fn am_reset() { *am() = AllocModel { live: false, ptr: 0, size: 0, align: 0, allocs: 0, reallocs: 0, deallocs: 0 }; unsafe { PM = core::ptr::null(); } }

/// Layout validity as GlobalAlloc / Layout::from_size_align define it
pub fn layout_valid(size: usize, align: usize) -> bool {
    align != 0 && (align & (align - 1)) == 0 && size <= (isize::MAX as usize) - (align - 1)
}
fn fresh_ptr() -> usize { 0x10000 * (am().allocs + am().reallocs + 1) }

pub unsafe fn m_alloc(layout: Layout) -> *mut u8 {
    let m = am();
    kani::assert(!m.live, "C18: at most one allocation is owned at a time");
    kani::assert(layout.size() != 0, "C18: no zero-sized request reaches the allocator");
    kani::assert(layout_valid(layout.size(), layout.align()), "C18: alloc is called with a valid layout (size rounded to align fits isize)");
    m.allocs += 1;
    m.live = true;
    m.size = layout.size();
    m.align = layout.align();
    m.ptr = fresh_ptr();
    m.ptr as *mut u8
}
pub unsafe fn m_realloc(ptr: *mut u8, layout: Layout, new_size: usize) -> *mut u8 {
    let m = am();
    kani::assert(m.live, "C18: realloc refers to a live allocation");
    kani::assert(ptr as usize == m.ptr && layout.size() == m.size && layout.align() == m.align,
        "C18: realloc presents exactly the pointer and layout of the allocation it refers to");
    kani::assert(new_size != 0, "C18: no zero-sized request reaches the allocator");
    kani::assert(layout_valid(new_size, layout.align()), "C18: realloc is called with a valid new size (rounded to align fits isize)");
    m.reallocs += 1;
    m.size = new_size;
    m.ptr = fresh_ptr();
    m.ptr as *mut u8
}
pub unsafe fn m_dealloc(ptr: *mut u8, layout: Layout) {
    let m = am();
    kani::assert(m.live, "C18: dealloc refers to a live allocation (no double free)");
    kani::assert(ptr as usize == m.ptr && layout.size() == m.size && layout.align() == m.align,
        "C18: dealloc presents exactly the pointer and layout of the allocation it refers to");
    m.deallocs += 1;
    m.live = false;
}

// ---- observation at the panic point ------------------------------------------------------------------
// Kani has no unwinding, so "a refused request leaves the storage consistent" is asserted at the moment the
// library panics: core's panic entry points for unwrap/expect are replaced by twins that first check that the
// HeapMem under test still describes the allocation it owns.
pub static mut PM: *const HM = core::ptr::null();
fn at_panic() {
    let p = unsafe { PM };
    if !p.is_null() {
        let m = unsafe { &*p };
        let e = m.element_layout().size();
        kani::assert(am().live == (e != 0 && m.size() != 0) && (!am().live || am().size == m.size() * e),
            "C18: when a capacity request is refused the storage still describes exactly the allocation it owns");
    }
}
pub const fn obs_option_unwrap_failed() -> ! { panic!("called `Option::unwrap()` on a `None` value") }
pub fn obs_option_unwrap_failed_rt() -> ! { at_panic(); panic!("called `Option::unwrap()` on a `None` value") }
pub fn obs_option_expect_failed(_msg: &str) -> ! { at_panic(); panic!("expect failed") }
pub fn obs_result_unwrap_failed(_msg: &str, _e: &dyn core::fmt::Debug) -> ! { at_panic(); panic!("unwrap on Err") }

macro_rules! ha {
    ($(#[$m:meta])* $name:ident, $body:expr) => {
        #[kani::proof]
        #[kani::stub(alloc::alloc::alloc, crate::kani_verif::k1_heap::m_alloc)]
        #[kani::stub(alloc::alloc::realloc, crate::kani_verif::k1_heap::m_realloc)]
        #[kani::stub(alloc::alloc::dealloc, crate::kani_verif::k1_heap::m_dealloc)]
        #[kani::stub(core::option::unwrap_failed, crate::kani_verif::k1_heap::obs_option_unwrap_failed_rt)]
        #[kani::stub(core::option::expect_failed, crate::kani_verif::k1_heap::obs_option_expect_failed)]
        #[kani::stub(core::result::unwrap_failed, crate::kani_verif::k1_heap::obs_result_unwrap_failed)]
        $(#[$m])*
        fn $name() { crate::kani_verif::util::set_domain(21); $body }
    };
}

fn fits<T>(n: usize) -> bool {
    let e = size_of::<T>();
    e == 0 || n <= ((isize::MAX as usize) - (align_of::<T>() - 1)) / e
}

fn check_state<T>(m: &HM, n: usize) {
    let e = size_of::<T>();
    kani::assert(m.size() == n, "HeapMem: capacity is exactly the requested size");
    kani::assert(m.element_layout() == Layout::new::<T>(), "HeapMem: reports the element layout it was built with");
    kani::assert(am().live == (e != 0 && n != 0), "C18: an allocation is owned exactly when capacity x size is non-zero");
    if am().live {
        kani::assert(am().size == n * e && am().align == align_of::<T>(), "C18: the allocation is exactly capacity x size bytes, aligned for the element type");
        kani::assert(m.as_ptr() as usize == am().ptr, "HeapMem: the storage pointer is the live allocation");
    } else {
        kani::assert(m.as_ptr() as usize != 0 && (m.as_ptr() as usize) % align_of::<T>() == 0, "C12: the storage pointer is non-null and aligned also when nothing is allocated");
    }
}

/// build, two arbitrary resizes over the whole valid usize range, drop
fn heap_protocol_h<T: 'static>() {
    am_reset();
    let mut m = Heap.build(Layout::new::<T>());
    check_state::<T>(&m, 0);
    let a: usize = kani::any();
    let b: usize = kani::any();
    kani::assume(fits::<T>(a) && fits::<T>(b));
    m.resize(a);
    check_state::<T>(&m, a);
    m.resize(b);
    check_state::<T>(&m, b);
    let calls = am().allocs + am().reallocs + am().deallocs;
    m.resize(b);
    kani::assert(am().allocs + am().reallocs + am().deallocs == calls, "HeapMem: resizing to the current size does not touch the allocator");
    drop(m);
    kani::assert(!am().live, "C18: dropping the storage returns all of its memory");
    kani::assert(am().allocs == am().deallocs, "C18: every allocation is released exactly once");
    kani::cover!(a != 0 && b != 0 && a != b && size_of::<T>() != 0, "COV realloc path");
    kani::cover!(a != 0 && b == 0, "COV shrink to zero");
    kani::cover!(true, "REACHED");
}

/// a resize whose byte size is not a valid layout cannot return (and never reaches the allocator)
fn heap_invalid_h<T: 'static>() {
    am_reset();
    let mut m = Heap.build(Layout::new::<T>());
    unsafe { PM = &m as *const HM; }
    let a: usize = kani::any();
    kani::assume(fits::<T>(a));
    m.resize(a);
    let b: usize = kani::any();
    kani::assume(!fits::<T>(b));
    m.resize(b);
    kani::cover!(true, "RETURNED");
}

/// expand(additional) from any valid size
fn heap_expand_h<T: 'static>() {
    am_reset();
    let mut m = Heap.build(Layout::new::<T>());
    let a: usize = kani::any();
    kani::assume(fits::<T>(a));
    m.resize(a);
    let add: usize = kani::any();
    kani::assume(a <= usize::MAX - add);
    // doubling saturates (only reachable for zero-sized elements, whose capacity is notional)
    let dbl = if a <= usize::MAX / 2 { a * 2 } else { usize::MAX };
    let want = if dbl > a + add { dbl } else { a + add };
    kani::assume(fits::<T>(want));
    m.expand(add);
    kani::assert(m.size() >= a + add, "HeapMem::expand grows by at least `additional`");
    kani::assert(m.size() >= dbl, "HeapMem::expand at least doubles (amortised growth)");
    kani::assert(m.size() == want, "HeapMem::expand: new capacity is max(2 x capacity, capacity + additional)");
    check_state::<T>(&m, want);
    core::mem::forget(m);
    kani::cover!(add == 1 && a > 1, "COV doubling");
    kani::cover!(true, "REACHED");
}

/// expand_exact(additional) from any valid size (the provided method of `MemResizable`; an override in
/// `HeapMem` would be new code outside the `resize` contract): grows by exactly `additional`, through the
/// allocator protocol with the element layout
fn heap_expand_exact_h<T: 'static>() {
    am_reset();
    let mut m = Heap.build(Layout::new::<T>());
    let a: usize = kani::any();
    kani::assume(fits::<T>(a));
    m.resize(a);
    let add: usize = kani::any();
    kani::assume(a <= usize::MAX - add && fits::<T>(a + add));
    m.expand_exact(add);
    kani::assert(m.size() == a + add, "HeapMem::expand_exact grows by exactly `additional`");
    check_state::<T>(&m, a + add);
    core::mem::forget(m);
    kani::cover!(a == 0 && add > 0, "COV first allocation");
    kani::cover!(a > 0 && add > 0, "COV growth of an existing block");
    kani::cover!(true, "REACHED");
}

/// expand whose request is not representable / not a valid layout cannot return, and not through an overflow check
fn heap_expand_invalid_h<T: 'static>() {
    am_reset();
    let mut m = Heap.build(Layout::new::<T>());
    unsafe { PM = &m as *const HM; }
    let a: usize = kani::any();
    kani::assume(fits::<T>(a));
    m.resize(a);
    let add: usize = kani::any();
    let overflow = a > usize::MAX - add;
    if !overflow {
        let dbl = if a <= usize::MAX / 2 { a * 2 } else { usize::MAX };
        let want = if dbl > a + add { dbl } else { a + add };
        kani::assume(!fits::<T>(want) && size_of::<T>() != 0);
    }
    m.expand(add);
    kani::cover!(true, "RETURNED");
}

fn heap_with_size_h<T: 'static>() {
    am_reset();
    let n: usize = kani::any();
    kani::assume(fits::<T>(n));
    let m = Heap.build_with_size(Layout::new::<T>(), n);
    check_state::<T>(&m, n);
    kani::assert(am().allocs <= 1 && am().reallocs == 0 && am().deallocs == 0, "build_with_size allocates at most once");
    core::mem::forget(m);
    kani::cover!(true, "REACHED");
}

fn heap_rawparts_h<T: 'static>() {
    am_reset();
    let n: usize = kani::any();
    kani::assume(fits::<T>(n));
    let m = Heap.build_with_size(Layout::new::<T>(), n);
    let p0 = m.as_ptr() as usize;
    let calls = am().allocs + am().reallocs + am().deallocs;
    let (h, l, s) = m.into_raw_parts();
    kani::assert(am().allocs + am().reallocs + am().deallocs == calls && am().live == (n != 0 && size_of::<T>() != 0), "into_raw_parts deallocates nothing");
    kani::assert(h.as_ptr() as usize == p0 && l == Layout::new::<T>() && s == n, "into_raw_parts reports the true pointer, layout and capacity");
    let m2 = unsafe { <HM as MemRawParts>::from_raw_parts(h, l, s) };
    check_state::<T>(&m2, n);
    drop(m2);
    kani::assert(!am().live && am().allocs == am().deallocs, "the rebuilt storage releases the adopted allocation exactly once");
    kani::cover!(n != 0, "COV non-empty");
    kani::cover!(true, "REACHED");
}

/// The capacity operations of a REAL heap-backed vector (the operation contracts run on the ghost backend; what
/// `HeapMem` answers by itself - any provided `Mem`/`MemResizable` method it overrides - is only seen here):
/// shrink_to / shrink_to_fit end at exactly min(capacity, max(len, m)); reserve_exact at exactly len + n;
/// reserve at >= len + n; all through the allocator protocol with the element layout.
/// op: 0 shrink_to_fit, 1 shrink_to(m), 2 reserve_exact(n), 3 reserve(n); `typed`: through the typed view
fn heap_vec_capacity_h<T: 'static>(op: usize, typed: bool) {
    am_reset();
    let cap: usize = kani::any();
    let len: usize = kani::any();
    kani::assume(cap <= (1usize << 24) && len <= cap);
    let mut v: crate::AnyVec<dyn crate::traits::None, Heap> = crate::AnyVec::with_capacity::<T>(cap);
    unsafe { v.set_len(len) };
    let x: usize = kani::any();
    kani::assume(x <= (1usize << 24));
    if typed {
        let mut t = v.downcast_mut::<T>().unwrap();
        if op == 0 { t.shrink_to_fit() } else if op == 1 { t.shrink_to(x) } else if op == 2 { t.reserve_exact(x) } else { t.reserve(x) }
    } else if op == 0 { v.shrink_to_fit() } else if op == 1 { v.shrink_to(x) } else if op == 2 { v.reserve_exact(x) } else { v.reserve(x) }
    let cap2 = v.capacity();
    let want = if op == 0 { len } else if op == 1 { let b = if len > x { len } else { x }; if cap < b { cap } else { b } }
               else if cap >= len + x { cap } else { len + x };
    if op <= 2 {
        kani::assert(cap2 == want, "heap vector: shrink ends at exactly min(capacity, max(len, m)); reserve_exact at exactly len + n (unchanged when sufficient)");
    } else {
        kani::assert(cap2 >= want && (cap >= len + x) == (cap2 == cap), "heap vector: reserve reaches at least len + n and leaves a sufficient capacity alone");
    }
    kani::assert(v.len() == len, "capacity operations keep the length");
    check_state::<T>(&v.raw.mem, cap2);
    unsafe { v.set_len(0) };
    core::mem::forget(v);
    kani::cover!(op == 0 && len > 0 && len < cap, "COV shrink to a non-empty length");
    kani::cover!(op >= 2 && len + x > cap, "COV grows");
    kani::cover!(true, "REACHED");
}

/// Raw-parts round trip of a REAL heap-backed vector (what `HeapMem` answers by itself is only seen here): nothing
/// is deallocated, the parts report the true length / capacity / pointer, the rebuilt vector owns the same block
fn heap_vec_rawparts_h<T: 'static>() {
    am_reset();
    let cap: usize = kani::any();
    let len: usize = kani::any();
    kani::assume(cap <= (1usize << 24) && len <= cap);
    let mut v: crate::AnyVec<dyn crate::traits::None, Heap> = crate::AnyVec::with_capacity::<T>(cap);
    unsafe { v.set_len(len) };
    let p0 = v.raw.mem.as_ptr() as usize;
    let calls = am().allocs + am().reallocs + am().deallocs;
    let live = am().live;
    let parts = v.into_raw_parts();
    kani::assert(am().allocs + am().reallocs + am().deallocs == calls && am().live == live, "AnyVec::into_raw_parts (heap) allocates and deallocates nothing");
    kani::assert(parts.len == len && parts.capacity == cap && parts.element_layout == Layout::new::<T>() && parts.mem_handle.as_ptr() as usize == p0,
        "AnyVec::into_raw_parts (heap) reports the true length, capacity, layout and storage pointer");
    let mut v2: crate::AnyVec<dyn crate::traits::None, Heap> = unsafe { crate::AnyVec::from_raw_parts(parts) };
    kani::assert(v2.len() == len && v2.capacity() == cap && v2.raw.mem.as_ptr() as usize == p0, "from_raw_parts (heap) rebuilds the same vector over the same block");
    kani::assert(am().allocs + am().reallocs + am().deallocs == calls, "the round trip never touches the allocator");
    check_state::<T>(&v2.raw.mem, cap);
    unsafe { v2.set_len(0) };
    core::mem::forget(v2);
    kani::cover!(len == 0 && cap > 0, "COV empty vector that owns a buffer");
    kani::cover!(true, "REACHED");
}

include!("k1_heap.inst.rs");

