//! K1: leaf contracts of src/lib.rs: copy_bytes == memmove, into_range, assert_types_equal,
//! copy_nonoverlapping_value.
use core::ops::Bound;
use core::any::TypeId;
use super::types::*;

// ---- copy_bytes ≡ ptr::copy (memmove) -------------------------------------------------------------
// Ghost state read by the in-place loop invariants (hook in src/lib.rs).
pub struct CbGhost {
    pub on: bool,
    /// witness byte inside the copied range and its original value
    pub j: usize,
    pub sj: u8,
    /// witness byte outside the destination range (frame) and its original value
    pub frame: *const u8,
    pub fr: u8,
}
pub static mut CB: CbGhost = CbGhost { on: false, j: 0, sj: 0, frame: core::ptr::null(), fr: 0 };

/// invariant of the ascending loop: bytes `< i` are copied, bytes `>= i` of the source are intact
pub fn cb_inv_fwd(src: *const u8, dst: *mut u8, count: usize, i: usize) -> bool {
    let c = unsafe { &*core::ptr::addr_of!(CB) };
    if !c.on { return true; }
    unsafe {
        i <= count
            && (if c.j < i { *dst.add(c.j) == c.sj } else { *src.add(c.j) == c.sj })
            && *c.frame == c.fr
    }
}
/// invariant of the descending loop: bytes `>= i` are copied, bytes `< i` of the source are intact
pub fn cb_inv_bwd(src: *const u8, dst: *mut u8, count: usize, i: usize) -> bool {
    let c = unsafe { &*core::ptr::addr_of!(CB) };
    if !c.on { return true; }
    unsafe {
        i <= count
            && (if c.j >= i { *dst.add(c.j) == c.sj } else { *src.add(c.j) == c.sj })
            && *c.frame == c.fr
    }
}

fn copy_bytes_contract<const N: usize>() {
    let mut buf: [u8; N] = kani::any();
    let so: usize = kani::any();
    let d_o: usize = kani::any();
    let count: usize = kani::any();
    kani::assume(count < 128 && so <= N && d_o <= N && count <= N - so && count <= N - d_o);
    let j: usize = kani::any();
    kani::assume(j < count);
    let o: usize = kani::any();
    kani::assume(o < N && !(d_o <= o && o < d_o + count));
    let sj = buf[so + j];
    let fr = buf[o];
    unsafe {
        let c = &mut *core::ptr::addr_of_mut!(CB);
        c.on = true; c.j = j; c.sj = sj; c.frame = buf.as_ptr().add(o); c.fr = fr;
        crate::copy_bytes(buf.as_ptr().add(so), buf.as_mut_ptr().add(d_o), count);
    }
    kani::assert(buf[d_o + j] == sj, "copy_bytes: dst[j] == old src[j] for every j < count (memmove, any overlap)");
    kani::assert(buf[o] == fr, "copy_bytes: no byte outside the destination changes");
    kani::cover!(d_o > so && d_o < so + count, "COV overlapping shift right");
    kani::cover!(d_o < so && so < d_o + count, "COV overlapping shift left");
    kani::cover!(true, "REACHED");
}

/// bounded demonstration harness (unrolls the loop): count < 8 in a 16-byte object
fn copy_bytes_unwound_h() {
    let mut buf: [u8; 16] = kani::any();
    let so: usize = kani::any();
    let d_o: usize = kani::any();
    let count: usize = kani::any();
    kani::assume(count < 8 && so <= 16 && d_o <= 16 && count <= 16 - so && count <= 16 - d_o);
    let j: usize = kani::any();
    kani::assume(j < count);
    let sj = buf[so + j];
    unsafe { crate::copy_bytes(buf.as_ptr().add(so), buf.as_mut_ptr().add(d_o), count); }
    kani::assert(buf[d_o + j] == sj, "copy_bytes: dst[j] == old src[j] for every j < count (memmove, any overlap)");
    kani::cover!(true, "REACHED");
}


/// count >= 128 forwards to ptr::copy with the same arguments
pub unsafe fn stub_copy_record<T>(src: *const T, dst: *mut T, count: usize) {
    let r = &mut *core::ptr::addr_of_mut!(FWD);
    r.0 += 1; r.1 = src as usize; r.2 = dst as usize; r.3 = count * core::mem::size_of::<T>();
}
static mut FWD: (usize, usize, usize, usize) = (0, 0, 0, 0);
fn copy_bytes_large_h() {
    let buf = [0u8; 4];
    let count: usize = kani::any();
    kani::assume(count >= 128);
    let s = buf.as_ptr();
    let d = buf.as_ptr() as *mut u8;
    unsafe { *core::ptr::addr_of_mut!(FWD) = (0, 0, 0, 0); }
    unsafe { crate::copy_bytes(s, d, count); }
    let r = unsafe { &*core::ptr::addr_of!(FWD) };
    kani::assert(r.0 == 1 && r.1 == s as usize && r.2 == d as usize && r.3 == count,
        "copy_bytes: count >= 128 is exactly one ptr::copy(src, dst, count)");
    kani::cover!(true, "REACHED");
}

include!("k1_lib.inst.rs");
