//! C09: lazy clones clone exactly when, and as often as, they are consumed.
use core::any::TypeId;
use core::mem::{size_of, MaybeUninit};
use crate::AnyVec;
use crate::any_value::{AnyValue, AnyValueCloneable, AnyValueSizeless, AnyValueTypeless, LazyClone, Unknown};
use crate::traits::Cloneable;
use super::ghost::*;
use super::post;
use super::types::*;
use super::util::*;

pub const S_REF: usize = 0; // ElementRef (at)
pub const S_MUT: usize = 1; // ElementMut (at_mut)
pub const S_DRAINED: usize = 2; // &Element yielded by drain
pub const S_REMOVE: usize = 3; // removal handle (TempValue)
pub const S_POP: usize = 4;

/// consume lazy clones of `src` `times` times through chain depth `depth`, into `dst` (push) and
/// into a caller buffer (downcast-style move_into)
fn consume<S: AnyValueCloneable + AnyValue, T: 'static>(src: &S, depth: usize, dst: &mut AnyVec<dyn Cloneable, GhostB>, out: *mut u8, at: usize, esz: usize) {
    kani::assert(g().n_clone_calls == 0, "C09: nothing cloned before a lazy clone is consumed");
    let l1 = src.lazy_clone();
    let l1b = l1.clone();
    drop(l1b);
    kani::assert(g().n_clone_calls == 0 && g().total_destroyed == 0, "C09: creating, copying and dropping a lazy clone clones and destroys nothing");
    kani::assert(off(l1.as_bytes_ptr()) == Some(at) && l1.size() == esz && l1.value_typeid() == TypeId::of::<T>(),
        "a lazy clone reports its source's address, size and type");
    let len0 = dst.len();
    if depth == 1 {
        dst.push(l1.clone());
        unsafe { l1.move_into::<Unknown>(out, esz) };
    } else if depth == 2 {
        let l2 = l1.lazy_clone();
        dst.push(l2.clone());
        // with the destination type known at compile time (what `downcast::<T>()` does)
        unsafe { l2.move_into::<T>(out, esz) };
    } else {
        let l2 = l1.lazy_clone();
        let l3 = l2.lazy_clone();
        kani::assert(g().n_clone_calls == 0, "C09: chaining lazy clones clones nothing");
        dst.push(l3.clone());
        unsafe { l3.move_into::<Unknown>(out, esz) };
    }
    kani::assert(g().n_clone_calls == 2 && g().total_cloned == 2, "C09: each consumption clones exactly once");
    kani::assert(g().total_destroyed == 0 && g().n_moves == 0, "C09: consuming a lazy clone destroys and moves nothing");
    kani::assert(dst.len() == len0 + 1, "C09: push of a lazy clone appends one element");
    kani::assert(g().last_clone_src == at && g().last_clone_n == 1, "C09: the clone is taken from the original source (also through a chain)");
}

fn lazy_h<T: 'static>(kind: usize, depth: usize) {
    ghost_init();
    let (len, cap) = sym_state();
    kani::assume(len >= 1);
    let mut v = unsafe { mk_vec::<dyn Cloneable, T>(0, len, cap, false, true) };
    reg(&v, 0);
    let (len_b, cap_b) = sym_state();
    let mut dst = unsafe { mk_vec::<dyn Cloneable, T>(1, len_b, cap_b, false, true) };
    reg(&dst, 1);
    let esz = size_of::<T>();
    let j = if kind == S_POP { len - 1 } else { let j = any_narrow(); kani::assume(j < len); j };
    tok_init(TW, esz);
    tok_place(TW, base(0) + j * esz);
    tok_init(TC, esz);
    let mut ext = MaybeUninit::<T>::uninit();
    let out = ext.as_mut_ptr() as *mut u8;
    let at = base(0) + j * esz;

    if kind == S_REF {
        let e = v.at(j);
        consume::<_, T>(&*e, depth, &mut dst, out, at, esz);
    } else if kind == S_MUT {
        let e = v.at_mut(j);
        consume::<_, T>(&*e, depth, &mut dst, out, at, esz);
    } else if kind == S_DRAINED {
        let mut d = v.drain(j..j + 1);
        let e = d.next().unwrap();
        consume::<_, T>(&e, depth, &mut dst, out, at, esz);
        core::mem::forget(e);
        core::mem::forget(d);
    } else if kind == S_REMOVE {
        let h = v.remove(j);
        consume::<_, T>(&h, depth, &mut dst, out, at, esz);
        core::mem::forget(h);
    } else {
        let h = v.pop().unwrap();
        consume::<_, T>(&h, depth, &mut dst, out, at, esz);
        core::mem::forget(h);
    }
    if esz != 0 {
        kani::assert(g().t[TW].cloned == 2 && g().t[TW].destroyed == 0 && g().t[TW].out == 0 && g().t[TW].live[0] && g().t[TW].addr[0] == at,
            "C09: the source is cloned once per consumption and left unchanged and usable");
        let (n, p, a, d, o) = obs(TC, 1, dst.len(), len_b);
        kani::assert(n == 1 && p == len_b && g().t[TC].out == 1, "C09: one clone landed in the destination vector, one in the caller's buffer");
    }
    kani::cover!(len_b == cap_b, "COV destination grows");
    kani::cover!(true, "REACHED");
    core::mem::forget(v);
    core::mem::forget(dst);
}

/// splice whose replacement items are lazy clones of elements of another vector: each written
/// replacement is exactly one clone of its source (not a bitwise copy of it)
pub struct LazyRepl<'a, T: AnyValueCloneable> { pub a: Option<LazyClone<'a, T>>, pub b: Option<LazyClone<'a, T>> }
impl<'a, T: AnyValueCloneable + AnyValue> Iterator for LazyRepl<'a, T> {
    type Item = LazyClone<'a, T>;
    fn next(&mut self) -> Option<LazyClone<'a, T>> {
        callout_invariant();
        if self.a.is_some() { self.a.take() } else { self.b.take() }
    }
}
impl<'a, T: AnyValueCloneable + AnyValue> ExactSizeIterator for LazyRepl<'a, T> {
    fn len(&self) -> usize { self.a.is_some() as usize + self.b.is_some() as usize }
}

fn lazy_splice_h<T: 'static>() {
    ghost_init();
    let (len, cap) = sym_state();
    let mut v = unsafe { mk_vec::<dyn Cloneable, T>(0, len, cap, false, true) };
    reg(&v, 0);
    let (len_b, cap_b) = sym_state();
    kani::assume(len_b >= 2);
    let other = unsafe { mk_vec::<dyn Cloneable, T>(1, len_b, cap_b, false, true) };
    reg(&other, 1);
    let esz = size_of::<T>();
    let j = any_narrow();
    kani::assume(j + 1 < len_b);
    tok_init(TW, esz);
    tok_place(TW, base(1) + j * esz);
    tok_init(TC, esz);
    let start = any_narrow();
    let end = any_narrow();
    kani::assume(start <= end && end <= len);
    {
        let (e0, e1) = (other.at(j), other.at(j + 1));
        let repl = LazyRepl { a: Some(e0.lazy_clone()), b: Some(e1.lazy_clone()) };
        kani::assert(g().n_clone_calls == 0, "C09: building lazy clones clones nothing");
        drop(v.splice(start..end, repl));
    }
    kani::assert(g().n_clone_calls == 2 && g().total_cloned == 2, "C09: splice clones each lazy replacement exactly once");
    kani::assert(g().in_count == 0, "C09: a lazy replacement is cloned into place, never copied bitwise");
    kani::assert(v.len() == len - (end - start) + 2 && other.len() == len_b, "lazy splice: lengths as Vec::splice, source untouched");
    if esz != 0 {
        let (n, p, a, d, o) = obs(TW, 1, len_b, j);
        kani::assert(n == 1 && p == j && d == 0 && o == 0 && g().t[TW].cloned == 1 && tok_visible_in(TW, 0, v.len()).0 == 0,
            "C09: the source element is cloned once, unchanged, and not aliased by the destination");
        let (n, p, a, d, o) = obs(TC, 0, v.len(), start);
        kani::assert(n == 1 && p == start, "C09: its clone is the first replacement, at start");
    }
    kani::cover!(start < end && end < len, "COV inner range");
    kani::cover!(true, "REACHED");
    core::mem::forget(v);
    core::mem::forget(other);
}

include!("k2_lazy.inst.rs");
