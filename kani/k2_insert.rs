//! K2: contracts of insert / push for every value source (C01, C03, C04, C05, C06, C09).
use core::any::TypeId;
use core::mem::{size_of, MaybeUninit};
use core::ptr::NonNull;
use crate::AnyVec;
use crate::any_value::{AnyValue, AnyValueCloneable, AnyValueRaw, AnyValueSizeless, AnyValueSizelessRaw, AnyValueTypeless, AnyValueWrapper};
use crate::traits::{Cloneable, None};
use super::ghost::*;
use super::post;
use super::types::*;
use super::util::*;

pub const SRC_RAW: usize = 0; // AnyValueRaw: statically unknown type, caller buffer
pub const SRC_WRAPPER: usize = 1; // AnyValueWrapper<T> through the erased API (type statically known)
pub const SRC_TYPED: usize = 2;
pub const SRC_SIZELESS: usize = 3; // AnyValueSizelessRaw through the unsafe `push_unchecked` / `insert_unchecked` (no size, no type)
pub const OP_DRAINED: usize = 3; // value source: element yielded by drain of another vector // AnyVecTyped::insert / push

/// post-condition shared by every insert/push harness on vector 0
fn post_insert(len: usize, index: usize, w: usize, esz: usize, len2: usize, cap2: usize) {
    kani::assert(len2 == post::insert_len(len), "insert/push: len' == len + 1");
    kani::assert(len2 <= cap2, "insert/push: len' <= capacity'");
    if esz != 0 {
        if len > 0 {
            let pos = post::insert_old_pos(len, index, w);
            let (n, p, a, d, o) = obs(TW, 0, len2, pos);
            kani::assert(
                post::fate_ok(post::insert_old_kind(len, index, w), pos, n, p, a, d, o),
                "insert/push: old element w is visible exactly once, at w (w < index) or w+1, alive",
            );
        }
        let pos = post::insert_new_pos(len, index);
        let (n, p, a, d, o) = obs(TV, 0, len2, pos);
        kani::assert(post::fate_ok(0, pos, n, p, a, d, o), "insert/push: the new value is visible exactly once, at index");
    }
}

/// insert (push when `push`) of a value the caller owns
fn insert_owned<T: 'static>(src: usize, push: bool, drop: bool, fixed: bool, mk: fn() -> T) {
    ghost_init();
    let (len, cap) = sym_state();
    if fixed {
        kani::assume(len < cap);
    }
    let mut v = unsafe { mk_vec::<dyn None, T>(0, len, cap, fixed, drop) };
    reg(&v, 0);
    let esz = size_of::<T>();
    let w = if len > 0 { witness_slot(TW, 0, len) } else { 0 };
    watch_uninit(0, len, cap);
    tok_init(TV, esz);
    let index = if push { len } else { let i = any_narrow(); kani::assume(i <= len); i };

    if src == SRC_RAW {
        let mut ext = MaybeUninit::<T>::uninit();
        let p = ext.as_mut_ptr() as *mut u8;
        g().ext_src_on = true;
        g().ext_src = p as *const u8;
        let val = unsafe { AnyValueRaw::new(NonNull::new_unchecked(p), esz, TypeId::of::<T>()) };
        if push { v.push(val) } else { v.insert(index, val) }
    } else if src == SRC_SIZELESS {
        let mut ext = MaybeUninit::<T>::uninit();
        let p = ext.as_mut_ptr() as *mut u8;
        g().ext_src_on = true;
        g().ext_src = p as *const u8;
        let val = unsafe { AnyValueSizelessRaw::new(NonNull::new_unchecked(p)) };
        unsafe { if push { v.push_unchecked(val) } else { v.insert_unchecked(index, val) } }
    } else if src == SRC_WRAPPER {
        let val = AnyValueWrapper::new(mk());
        if push { v.push(val) } else { v.insert(index, val) }
    } else {
        let mut tv = v.downcast_mut::<T>().unwrap();
        if push { tv.push(mk()) } else { tv.insert(index, mk()) }
    }

    post_insert(len, index, w, esz, v.len(), v.capacity());
    kani::assert(g().in_count == if esz == 0 { 0 } else { 1 }, "insert/push: exactly one value written");
    kani::assert(g().total_destroyed == 0 && g().ext_destroyed == 0 && g().out_count == 0 && g().n_clone_calls == 0,
        "insert/push: nothing destroyed, moved out or cloned");
    if fixed || len < cap {
        kani::assert(g().v[0].cap_changes == 0 && v.capacity() == cap, "insert/push: capacity untouched while the result fits");
    } else {
        kani::assert(g().v[0].cap_changes == 1 && g().v[0].last_expand == 1, "insert/push: at full capacity grows once, by a request of one");
    }
    kani::cover!(index < len && len == cap, "COV in front at full capacity");
    kani::cover!(index == 0 && len > 1 && len < cap, "COV in front of several");
    kani::cover!(true, "REACHED");
    core::mem::forget(v);
}

/// insert/push of a removal handle of *another* vector (value moves between vectors, no caller buffer)
fn insert_from_other<T: 'static>(push: bool, op: usize) {
    ghost_init();
    let (len, cap) = sym_state();
    let mut v = unsafe { mk_vec::<dyn None, T>(0, len, cap, false, true) };
    reg(&v, 0);
    let (len_b, cap_b) = sym_state();
    kani::assume(len_b >= 1);
    let mut other = unsafe { mk_vec::<dyn None, T>(1, len_b, cap_b, false, true) };
    reg(&other, 1);
    let esz = size_of::<T>();
    let w = if len > 0 { witness_slot(TW, 0, len) } else { 0 };
    // the witness of `other` rides in token TC: a symbolic slot of the source vector
    let wb = witness_slot(TC, 1, len_b);
    tok_init(TV, esz);
    let index = if push { len } else { let i = any_narrow(); kani::assume(i <= len); i };
    let j = if op == super::k2_remove::OP_POP { len_b - 1 } else { let j = any_narrow(); kani::assume(j < len_b); j };

    if op == super::k2_remove::OP_REMOVE {
        let h = other.remove(j);
        if push { v.push(h) } else { v.insert(index, h) }
    } else if op == super::k2_remove::OP_SWAP_REMOVE {
        let h = other.swap_remove(j);
        if push { v.push(h) } else { v.insert(index, h) }
    } else if op == OP_DRAINED {
        // a drained element of another vector (owning element handle) moved in
        let mut d = other.drain(j..j + 1);
        let e = d.next().unwrap();
        if push { v.push(e) } else { v.insert(index, e) }
        core::mem::drop(d);
    } else {
        let h = other.pop().unwrap();
        if push { v.push(h) } else { v.insert(index, h) }
    }

    let len2 = v.len();
    let lenb2 = other.len();
    kani::assert(len2 == post::insert_len(len) && len2 <= v.capacity(), "move between vectors: target len' == len + 1 <= capacity'");
    kani::assert(lenb2 == post::remove_len(len_b), "move between vectors: source len' == len - 1");
    kani::assert(g().total_destroyed == 0 && g().out_count == 0 && g().in_count == 0 && g().n_clone_calls == 0,
        "move between vectors: nothing destroyed, cloned or copied through a caller buffer");
    if esz != 0 {
        if len > 0 {
            let pos = post::insert_old_pos(len, index, w);
            let (n, p, a, d, o) = obs(TW, 0, len2, pos);
            kani::assert(post::fate_ok(0, pos, n, p, a, d, o) && tok_visible_in(TW, 1, lenb2).0 == 0,
                "move between vectors: target's old element w keeps Vec::insert's position");
        }
        // source element wb: moved into the target iff wb == j, else Vec::remove's fate in the source
        let (nb_in_a, _) = tok_visible_in(TC, 0, len2);
        if wb == j {
            let (n, p, a, d, o) = obs(TC, 0, len2, index);
            kani::assert(post::fate_ok(0, index, n, p, a, d, o) && tok_visible_in(TC, 1, lenb2).0 == 0,
                "move between vectors: the moved value is visible exactly once, in the target at index");
        } else {
            let pos = if op == super::k2_remove::OP_REMOVE || op == OP_DRAINED { post::remove_old_pos(len_b, j, wb) }
                      else if op == super::k2_remove::OP_SWAP_REMOVE { post::swap_remove_old_pos(len_b, j, wb) }
                      else { post::pop_old_pos(len_b, wb) };
            let (n, p, a, d, o) = obs(TC, 1, lenb2, pos);
            kani::assert(post::fate_ok(0, pos, n, p, a, d, o) && nb_in_a == 0,
                "move between vectors: source's other elements have Vec::remove's fate");
        }
    }
    kani::cover!(index < len && len == cap && j == 0 && len_b > 1, "COV move first of source in front of full target");
    kani::cover!(true, "REACHED");
    core::mem::forget(v);
    core::mem::forget(other);
}

/// insert/push of a lazy clone of an element of another vector (user `Clone` runs inside the write)
fn insert_lazy_clone<T: 'static>(push: bool) {
    ghost_init();
    let (len, cap) = sym_state();
    let mut v = unsafe { mk_vec::<dyn Cloneable, T>(0, len, cap, false, true) };
    reg(&v, 0);
    let (len_b, cap_b) = sym_state();
    kani::assume(len_b >= 1);
    let other = unsafe { mk_vec::<dyn Cloneable, T>(1, len_b, cap_b, false, true) };
    reg(&other, 1);
    let esz = size_of::<T>();
    // TW = the source element (slot j of `other`), TC = its clone; the target's old slot w is checked
    // through a second run of this contract with the roles of the tokens swapped (insert_lazy_clone_tgt)
    let j = witness_slot(TW, 1, len_b);
    tok_init(TC, esz);
    let index = if push { len } else { let i = any_narrow(); kani::assume(i <= len); i };

    {
        let e = other.at(j);
        let lz = e.lazy_clone();
        kani::assert(g().n_clone_calls == 0, "C09: creating a lazy clone clones nothing");
        if push { v.push(lz) } else { v.insert(index, lz) }
    }

    let len2 = v.len();
    kani::assert(len2 == post::insert_len(len) && len2 <= v.capacity(), "lazy clone insert: len' == len + 1 <= capacity'");
    kani::assert(other.len() == len_b, "lazy clone insert: source vector untouched");
    kani::assert(g().n_clone_calls == 1 && g().total_cloned == 1, "C09: consuming a lazy clone clones exactly once");
    kani::assert(g().total_destroyed == 0 && g().out_count == 0 && g().in_count == 0, "lazy clone insert: nothing destroyed or moved");
    if esz != 0 {
        let (n, p, a, d, o) = obs(TW, 1, len_b, j);
        kani::assert(post::fate_ok(0, j, n, p, a, d, o) && g().t[TW].cloned == 1, "C09: the source is cloned once and left unchanged");
        let (n, p, a, d, o) = obs(TC, 0, len2, index);
        kani::assert(post::fate_ok(0, index, n, p, a, d, o), "lazy clone insert: the clone is visible exactly once, at index");
    }
    kani::cover!(index < len && len == cap, "COV lazy clone in front at full capacity");
    kani::cover!(true, "REACHED");
    core::mem::forget(v);
    core::mem::forget(other);
}

/// same operation, watching an old element `w` of the *target*: it must be out of sight while the
/// user's `Clone` runs (panic-view invariant inside the clone call-out) and end where Vec puts it
fn insert_lazy_clone_tgt<T: 'static>(push: bool) { insert_lazy_clone_tgt_k::<T>(push, false) }

/// A user-implemented cloneable value whose element type is known at compile time (`type Type = T`): its lazy
/// clone takes the *known-type* branch of `insert_unchecked` / `push_unchecked`.  Cloning it is user code: the
/// recorder (which checks the panic-view invariant) stands for `T::clone`.
pub struct KnownSrc<T> { pub p: *const u8, pub ph: core::marker::PhantomData<T> }
impl<T: 'static> AnyValueSizeless for KnownSrc<T> {
    type Type = T;
    fn as_bytes_ptr(&self) -> *const u8 { self.p }
}
impl<T: 'static> AnyValueTypeless for KnownSrc<T> {
    fn size(&self) -> usize { size_of::<T>() }
}
impl<T: 'static> AnyValue for KnownSrc<T> {
    fn value_typeid(&self) -> TypeId { TypeId::of::<T>() }
}
impl<T: 'static> AnyValueCloneable for KnownSrc<T> {
    unsafe fn clone_into(&self, out: *mut u8) { rec_clone(self.p, out, 1) }
}

/// `known`: the lazy clone's source is a `KnownSrc<T>` (known-type branch) instead of an erased element reference
fn insert_lazy_clone_tgt_k<T: 'static>(push: bool, known: bool) {
    ghost_init();
    let (len, cap) = sym_state();
    kani::assume(len >= 1);
    let mut v = unsafe { mk_vec::<dyn Cloneable, T>(0, len, cap, false, true) };
    reg(&v, 0);
    let (len_b, cap_b) = sym_state();
    kani::assume(len_b >= 1);
    let other = unsafe { mk_vec::<dyn Cloneable, T>(1, len_b, cap_b, false, true) };
    reg(&other, 1);
    let esz = size_of::<T>();
    let w = witness_slot(TW, 0, len);
    let j = any_narrow();
    kani::assume(j < len_b);
    let index = if push { len } else { let i = any_narrow(); kani::assume(i <= len); i };
    if known {
        let src = KnownSrc::<T> { p: arena_ptr(base(1) + j * esz) as *const u8, ph: core::marker::PhantomData };
        if push { v.push(src.lazy_clone()) } else { v.insert(index, src.lazy_clone()) }
    } else {
        let e = other.at(j);
        if push { v.push(e.lazy_clone()) } else { v.insert(index, e.lazy_clone()) }
    }
    let len2 = v.len();
    kani::assert(g().n_clone_calls == 1, "lazy clone insert: exactly one clone call-out");
    if esz != 0 {
        let pos = post::insert_old_pos(len, index, w);
        let (n, p, a, d, o) = obs(TW, 0, len2, pos);
        kani::assert(post::fate_ok(0, pos, n, p, a, d, o), "lazy clone insert: target's old element w keeps Vec::insert's position");
    }
    kani::cover!(index < len && w >= index, "COV shifted witness");
    kani::cover!(true, "REACHED");
    core::mem::forget(v);
    core::mem::forget(other);
}


include!("k2_insert.inst.rs");
