//! K2: contract of insert / push (C01, C03, C05).
use core::any::TypeId;
use core::mem::{size_of, MaybeUninit};
use core::ptr::NonNull;
use crate::AnyVec;
use crate::any_value::{AnyValueRaw, AnyValueWrapper};
use crate::traits::None;
use super::ghost::*;
use super::post;
use super::types::*;
use super::util::*;

const NORELOC: bool = false;
/// erased insert, value offered as `AnyValueRaw` (type statically unknown)
fn insert_raw<T: 'static>(drop: bool) {
    ghost_init();
    let (len, cap) = sym_state();
    if NORELOC { kani::assume(len < cap); }
    let mut v = unsafe { mk_vec::<dyn None, T>(0, len, cap, false, drop) };
    reg(&v, 0);
    let esz = size_of::<T>();
    let w = if len > 0 { witness_slot(TW, 0, len) } else { 0 };
    watch_uninit(0, len, cap);
    tok_init(TV, esz);
    let mut ext = MaybeUninit::<T>::uninit();
    let p = ext.as_mut_ptr() as *mut u8;
    g().ext_src_on = true;
    g().ext_src = p as *const u8;
    let index = any_narrow();
    kani::assume(index <= len);
    let val = unsafe { AnyValueRaw::new(NonNull::new_unchecked(p), esz, TypeId::of::<T>()) };

    v.insert(index, val);

    let len2 = v.len();
    kani::assert(len2 == post::insert_len(len), "insert: len' == len + 1");
    kani::assert(len2 <= v.capacity(), "insert: len' <= capacity'");
    kani::assert(g().in_count == 1, "insert: exactly one value written");
    kani::assert(g().total_destroyed == 0 && g().out_count == 0 && g().n_clone_calls == 0,
        "insert: nothing destroyed, moved out or cloned");
    if esz != 0 {
        if len > 0 {
            let pos = post::insert_old_pos(len, index, w);
            let (n, p, a, d, o) = obs(TW, 0, len2, pos);
            kani::assert(
                post::fate_ok(post::insert_old_kind(len, index, w), pos, n, p, a, d, o),
                "insert: old element w is visible exactly once, at w (w < index) or w+1",
            );
        }
        let pos = post::insert_new_pos(len, index);
        let (n, p, a, d, o) = obs(TV, 0, len2, pos);
        kani::assert(post::fate_ok(0, pos, n, p, a, d, o),
            "insert: the new value is visible exactly once, at index");
    }
    kani::cover!(index < len && len == cap, "COV insert in front at full capacity");
    kani::cover!(true, "REACHED");
    core::mem::forget(v);
}

h!(insert_raw_e12, insert_raw::<E12>(true));
h!(insert_raw_e3, insert_raw::<E3>(false));
h!(insert_raw_e8, insert_raw::<E8>(true));
h!(insert_raw_e1, insert_raw::<E1>(true));
