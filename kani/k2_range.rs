//! K2: contracts of drain / splice: handle creation, any consumption state (f front / b back items
//! taken), drop or forget (C02, C03, C05, C06, C07, C11).
use core::any::TypeId;
use core::mem::{size_of, MaybeUninit};
use core::ptr::NonNull;
use crate::AnyVec;
use crate::any_value::{AnyValue, AnyValueRaw, AnyValueSizeless, AnyValueWrapper};
use crate::any_vec_ptr::{AnyVecPtr, AnyVecRawPtr, IAnyVecRawPtr};
use crate::ops::Iterable;
use crate::traits::None;
use super::ghost::*;
use super::post;
use super::types::*;
use super::util::*;

pub const DROP: usize = 1;
pub const FORGET: usize = 3;

/// symbolic range and consumption state: start <= end <= len, f + b <= end - start
fn sym_range(len: usize) -> (usize, usize, usize, usize) {
    let start = any_narrow();
    let end = any_narrow();
    let f = any_narrow();
    let b = any_narrow();
    kani::assume(start <= end && end <= len && f <= end - start && b <= end - start - f);
    (start, end, f, b)
}

/// Puts the range iterator into the state "f items taken from the front, b from the back".
/// Justified by the K1 contracts of `Iter::next/next_back` (k1_iter) + the Verus `interleaving`
/// lemma: every next()/next_back() string with f fronts and b backs reaches exactly this cursor and
/// has yielded exactly the items of [start, start+f) and [end-b, end), which the caller now owns.
fn advance<P: IAnyVecRawPtr>(it: &mut crate::iter::Iter<'_, P>, start: usize, end: usize, f: usize, b: usize, w: usize, has_w: bool) {
    kani::assert(it.index == start && it.end == end, "range iterator: fresh cursor covers exactly start..end");
    it.index = start + f;
    it.end = end - b;
    if has_w && g().esz != 0 && ((start <= w && w < start + f) || (end - b <= w && w < end)) {
        g().t[TW].out = 1;
    }
}

fn drain_h<T: 'static>(typed: bool, drop: bool, how: usize) {
    drain_hb::<T>(typed, drop, how, usize::MAX)
}

/// `maxd`: bound on the number of unyielded range elements (only for typed element types WITH drop
/// glue, whose range destructor is the slice drop glue of core: a loop Kani must unwind)
fn drain_hb<T: 'static>(typed: bool, drop: bool, how: usize, maxd: usize) {
    ghost_init();
    let (len, cap) = sym_state();
    let mut v = unsafe { mk_vec::<dyn None, T>(0, len, cap, false, drop) };
    reg(&v, 0);
    let esz = size_of::<T>();
    let has_w = len > 0;
    let w = if has_w { witness_slot(TW, 0, len) } else { 0 };
    watch_uninit(0, len, cap);
    let (start, end, f, b) = sym_range(len);
    if maxd != usize::MAX { kani::assume(end - start - f - b <= maxd); }

    if !typed {
        let mut d = v.drain(start..end);
        kani::assert(cur_len(0) == post::drain_len_during(len, start, end), "drain: len lowered to start while the iterator lives");
        kani::assert(g().n_moves == 0 && g().total_destroyed == 0, "drain: creating the iterator touches no element");
        advance(d.0.iter_mut(), start, end, f, b, w, has_w);
        if how == DROP { core::mem::drop(d) } else { core::mem::forget(d) }
    } else {
        let p = AnyVecRawPtr::<T, GhostB>::from(NonNull::from(&mut v.raw));
        let mut d = crate::ops::Iter(crate::ops::drain::Drain::new(p, start, end));
        kani::assert(cur_len(0) == post::drain_len_during(len, start, end), "drain: len lowered to start while the iterator lives");
        kani::assert(g().n_moves == 0 && g().total_destroyed == 0, "drain: creating the iterator touches no element");
        advance(d.0.iter_mut(), start, end, f, b, w, has_w);
        if how == DROP { core::mem::drop(d) } else { core::mem::forget(d) }
    }

    let len2 = v.len();
    kani::assert(v.capacity() == cap && g().v[0].cap_changes == 0, "drain never changes capacity");
    kani::assert(g().in_count == 0 && g().n_clone_calls == 0 && g().out_count == 0, "drain writes no new value, clones nothing, moves nothing out itself");
    if how == DROP {
        kani::assert(len2 == post::drain_len(len, start, end), "drain: len' == len - (end - start)");
        kani::assert(g().total_destroyed == if drop { (end - b) - (start + f) } else { 0 }, "drain: destroys exactly the unyielded range items");
        if esz != 0 && has_w {
            let kind = post::drain_old_kind(len, start, end, f, b, w);
            let pos = if kind == 0 { post::drain_old_pos(len, start, end, w) } else { 0 };
            let (n, p, a, d, o) = obs(TW, 0, len2, pos);
            let d = if kind == 1 && !drop { 1 } else { d };
            kani::assert(post::fate_ok(kind, pos, n, p, a, d, o), "drain: every old element has the fate Vec::drain gives it");
        }
    } else {
        kani::assert(len2 <= len && len2 <= cap, "forget: vector stays valid (len within bounds)");
        kani::assert(g().total_destroyed == 0, "forget: nothing destroyed");
        if esz != 0 && has_w {
            if w < start {
                let (n, p, a, d, o) = obs(TW, 0, len2, w);
                kani::assert(post::fate_ok(0, w, n, p, a, d, o), "forget: elements before the range are unchanged");
            } else {
                let (n, a, d, o) = obs_any(TW, 0, len2);
                kani::assert(post::fate_safe(n, a, d, o), "forget: nothing duplicated, destroyed twice or visible moved-out");
            }
        }
    }
    kani::cover!(b > 0 && f > 0 && start + f < end - b && end < len && start > 0, "COV both ends consumed, middle left, tail present");
    kani::cover!(start == end, "COV empty range");
    kani::cover!(true, "REACHED");
    core::mem::forget(v);
}

// ---- replacement iterators ------------------------------------------------------------------------

/// A user replacement iterator: yields `left` items, *reports* `report` of them (honest when equal).
/// Every `next()` is user code, so it checks the panic-view invariant.
pub struct RawRepl { pub left: usize, pub report: usize, pub p: *mut u8, pub esz: usize, pub tid: TypeId }
impl Iterator for RawRepl {
    type Item = AnyValueRaw;
    fn next(&mut self) -> Option<AnyValueRaw> {
        callout_invariant();
        if self.left == 0 { return Option::None; }
        self.left -= 1;
        self.report = if self.report > 0 { self.report - 1 } else { 0 };
        Some(unsafe { AnyValueRaw::new(NonNull::new_unchecked(self.p), self.esz, self.tid) })
    }
    fn size_hint(&self) -> (usize, Option<usize>) { (self.report, Some(self.report)) }
}
impl ExactSizeIterator for RawRepl {
    fn len(&self) -> usize { self.report }
}

pub struct TypedRepl<T> { pub left: usize, pub report: usize, pub mk: fn() -> T }
impl<T: 'static> Iterator for TypedRepl<T> {
    type Item = AnyValueWrapper<T>;
    fn next(&mut self) -> Option<AnyValueWrapper<T>> {
        callout_invariant();
        if self.left == 0 { return Option::None; }
        self.left -= 1;
        self.report = if self.report > 0 { self.report - 1 } else { 0 };
        Some(AnyValueWrapper::new((self.mk)()))
    }
    fn size_hint(&self) -> (usize, Option<usize>) { (self.report, Some(self.report)) }
}
impl<T: 'static> ExactSizeIterator for TypedRepl<T> {
    fn len(&self) -> usize { self.report }
}

pub const KMAX: usize = 3;

/// `misreport`: 0 honest; else the iterator's len() is off by -2..=+2 (C06)
fn splice_h<T: 'static>(typed: bool, drop: bool, how: usize, fixed: bool, misreport: bool, kfix: usize, mk: fn() -> T) {
    ghost_init();
    let (len, cap) = sym_state();
    let mut v = unsafe { mk_vec::<dyn None, T>(0, len, cap, fixed, drop) };
    reg(&v, 0);
    let esz = size_of::<T>();
    let has_w = len > 0;
    let w = if has_w { witness_slot(TW, 0, len) } else { 0 };
    watch_uninit(0, len, cap);
    let (start, end, f, b) = sym_range(len);
    let k: usize = if kfix <= KMAX { kfix } else { kani::any() };
    kani::assume(k <= KMAX);
    let report: usize = if misreport { kani::any() } else { k };
    kani::assume(report <= k + 2 && k <= report + 2);
    if fixed {
        // the honest result fits the fixed capacity
        kani::assume(len - (end - start) + (if report > k { report } else { k }) <= cap);
    }
    let r: usize = kani::any();
    kani::assume(r < k || k == 0);
    tok_init(TV, esz);
    g().in_witness = r;
    let mut ext = MaybeUninit::<T>::uninit();
    let xp = ext.as_mut_ptr() as *mut u8;

    if !typed {
        let repl = RawRepl { left: k, report, p: xp, esz, tid: TypeId::of::<T>() };
        let mut s = v.splice(start..end, repl);
        kani::assert(cur_len(0) == start, "splice: len lowered to start while the iterator lives");
        kani::assert(g().n_moves == 0 && g().total_destroyed == 0, "splice: creating the iterator touches no element");
        advance(s.0.iter_mut(), start, end, f, b, w, has_w);
        if how == DROP { core::mem::drop(s) } else { core::mem::forget(s) }
    } else {
        let p = AnyVecRawPtr::<T, GhostB>::from(NonNull::from(&mut v.raw));
        let repl = TypedRepl::<T> { left: k, report, mk };
        let mut s = crate::ops::Iter(crate::ops::splice::Splice::new(p, start, end, repl));
        kani::assert(cur_len(0) == start, "splice: len lowered to start while the iterator lives");
        kani::assert(g().n_moves == 0 && g().total_destroyed == 0, "splice: creating the iterator touches no element");
        advance(s.0.iter_mut(), start, end, f, b, w, has_w);
        if how == DROP { core::mem::drop(s) } else { core::mem::forget(s) }
    }

    let len2 = v.len();
    let cap2 = v.capacity();
    kani::assert(len2 <= cap2, "splice: len' <= capacity'");
    kani::assert(g().n_clone_calls == 0 && g().out_count == 0, "splice clones nothing, moves nothing out itself");
    if how == DROP && !misreport {
        kani::assert(len2 == post::splice_len(len, start, end, k), "splice: len' == len - (end - start) + k");
        kani::assert(g().in_count == if esz == 0 { 0 } else { k }, "splice: writes exactly the k replacement values");
        kani::assert(g().total_destroyed == if drop { (end - b) - (start + f) } else { 0 }, "splice: destroys exactly the unyielded range items");
        if post::splice_len(len, start, end, k) <= cap {
            kani::assert(g().v[0].cap_changes == 0 && cap2 == cap, "splice: capacity untouched when the result fits (also on fixed-capacity storage)");
        }
        if esz != 0 {
            if has_w {
                let kind = post::splice_old_kind(len, start, end, f, b, w);
                let pos = if kind == 0 { post::splice_old_pos(len, start, end, k, w) } else { 0 };
                let (n, p, a, d, o) = obs(TW, 0, len2, pos);
                let d = if kind == 1 && !drop { 1 } else { d };
                kani::assert(post::fate_ok(kind, pos, n, p, a, d, o), "splice: every old element has the fate Vec::splice gives it");
            }
            if k > 0 {
                let pos = post::splice_new_pos(start, r);
                let (n, p, a, d, o) = obs(TV, 0, len2, pos);
                kani::assert(post::fate_ok(0, pos, n, p, a, d, o), "splice: the r-th replacement value is visible exactly once, at start + r");
            }
        }
    } else if how == DROP {
        // C06: a misreporting iterator may lose elements but never corrupts
        if esz != 0 {
            if has_w {
                let (n, a, d, o) = obs_any(TW, 0, len2);
                kani::assert(post::fate_safe(n, a, d, o), "misreporting iterator: no old element duplicated, destroyed twice or visible dead");
                if w < start {
                    let (n, p, a, d, o) = obs(TW, 0, len2, w);
                    kani::assert(post::fate_ok(0, w, n, p, a, d, o), "misreporting iterator: elements before the range are unchanged");
                }
            }
            let (n, _) = tok_visible_in(TV, 0, len2);
            kani::assert(n <= 1, "misreporting iterator: no replacement value visible twice");
            kani::assert(!(g().uninit_on && g().uninit_at < base(0) + len2 * esz && g().uninit_at >= base(0)),
                "misreporting iterator: no uninitialised slot becomes visible");
        }
    } else {
        kani::assert(len2 <= len, "forget: vector stays valid (len within bounds)");
        kani::assert(g().total_destroyed == 0 && g().in_count == 0, "forget: nothing destroyed or written");
        if esz != 0 && has_w {
            if w < start {
                let (n, p, a, d, o) = obs(TW, 0, len2, w);
                kani::assert(post::fate_ok(0, w, n, p, a, d, o), "forget: elements before the range are unchanged");
            } else {
                let (n, a, d, o) = obs_any(TW, 0, len2);
                kani::assert(post::fate_safe(n, a, d, o), "forget: nothing duplicated, destroyed twice or visible moved-out");
            }
        }
    }
    kani::cover!(k == KMAX && b > 0 && f > 0 && end < len && len + k > cap + (end - start), "COV growing splice, both ends consumed");
    kani::cover!(k == 0 && start < end, "COV pure removal");
    kani::cover!(true, "REACHED");
    core::mem::forget(v);
}


/// History "an element yielded by drain / splice is consumed AFTER its range iterator is gone".  Safe code: the
/// yielded handle borrows the vector (lifetime of `drain(&mut self)`), not the iterator, so
/// `let e = v.drain(a..b).next().unwrap(); drop(e)` compiles.  C03 demands that consuming `e` then still
/// destroys the value that was yielded and nothing that is visible in the vector.
/// On the pinned tree this FAILS (known finding D15, known_findings.json): the handle points at a slot the
/// iterator's drop has refilled with a tail element, which is then destroyed while still visible.
fn range_item_outlives_h<T: 'static>(splice: bool) {
    ghost_init();
    let (len, cap) = sym_state();
    let mut v = unsafe { mk_vec::<dyn None, T>(0, len, cap, false, true) };
    reg(&v, 0);
    let esz = size_of::<T>();
    kani::assume(len > 0);
    let _w = witness_slot(TW, 0, len);
    let start = any_narrow();
    let end = any_narrow();
    kani::assume(start < end && end <= len);
    let r = if splice {
        v.splice(start..end, RawRepl { left: 0, report: 0, p: core::ptr::null_mut(), esz, tid: TypeId::of::<T>() }).next()
    } else {
        v.drain(start..end).next()
    };
    // the range iterator is gone: the rest of the range destroyed, the tail moved down
    kani::assert(r.is_some(), "a non-empty range yields its first element");
    kani::assert(g().total_destroyed == end - start - 1, "range iterator dropped after one item: destroys exactly the unyielded range items");
    let len2 = cur_len(0);
    kani::assert(len2 == post::drain_len(len, start, end), "drain: len' == len - (end - start)");
    if let Some(item) = &r {
        // whatever the caller now does with its element (drop, downcast, move into another vector) acts on
        // the slot the handle addresses: that slot must not be one the vector still shows
        let a = off(item.as_bytes_ptr());
        if esz != 0 {
            kani::assert(a.is_some(), "a yielded element handle addresses vector storage");
            if let Some(a) = a {
                kani::assert(!(base(0) <= a && a < base(0) + len2 * esz),
                    "an element yielded by a range iterator and still held after the iterator is gone does not alias an element visible in the vector (consuming it would destroy or move out a visible element)");
            }
        }
    }
    core::mem::forget(r);
    kani::cover!(true, "REACHED");
    core::mem::forget(v);
}


/// History "an owning element handle is swapped out of a mutable element reference".  Safe code:
/// `ElementMut: DerefMut<Target = Element>` hands out `&mut Element`, and `Element` is the *owning* handle type
/// (its drop destroys the element), so `mem::replace(&mut *v0.get_mut(i).unwrap(), owned)` - with `owned` any
/// element drained from another vector - returns an owning handle for an element `v0` still shows.
/// On the pinned tree this FAILS (known finding D16, known_findings.json).
fn element_mut_replace_h<T: 'static>() {
    ghost_init();
    let len = any_narrow();
    let cap = any_narrow();
    let len_b = any_narrow();
    let cap_b = any_narrow();
    kani::assume(len <= cap && cap <= CAPMAX / 2 && len_b <= cap_b && cap_b <= CAPMAX / 2);
    kani::assume(len > 0 && len_b > 0);
    let esz = size_of::<T>();
    let mut v = unsafe { mk_vec::<dyn None, T>(0, len, cap, false, true) };
    let mut o = unsafe { mk_vec::<dyn None, T>(1, len_b, cap_b, false, true) };
    reg(&v, 0);
    reg(&o, 1);
    let i = any_narrow();
    kani::assume(i < len);
    {
        let mut d = o.drain(len_b - 1..len_b);
        let owned = d.next();
        kani::assert(owned.is_some(), "a non-empty range yields its first element");
        if let (Some(owned), Some(mut em)) = (owned, v.get_mut(i)) {
            let stolen = core::mem::replace(&mut *em, owned);
            let a = off(stolen.as_bytes_ptr());
            if esz != 0 {
                if let Some(a) = a {
                    kani::assert(!(base(0) <= a && a < base(0) + cur_len(0) * esz),
                        "an owning element handle obtained by the caller does not address an element still visible in a vector (dropping or consuming it would destroy / move out a visible element)");
                }
            }
            core::mem::forget(stolen);
        }
        core::mem::forget(d);
    }
    kani::cover!(true, "REACHED");
    core::mem::forget(v);
    core::mem::forget(o);
}


/// splice whose result exceeds a fixed capacity: the call cannot succeed (the backend refuses to grow), and at
/// the moment it refuses the vector is valid (C11 "splice beyond it leaves them valid"): the ghost backend checks
/// the panic-view invariant at the refusal
fn splice_fixed_overflow_h<T: 'static>(typed: bool, mk: fn() -> T) {
    ghost_init();
    let (len, cap) = sym_state();
    let mut v = unsafe { mk_vec::<dyn None, T>(0, len, cap, true, true) };
    reg(&v, 0);
    let esz = size_of::<T>();
    let has_w = len > 0;
    let w = if has_w { witness_slot(TW, 0, len) } else { 0 };
    let (start, end, f, b) = sym_range(len);
    let k: usize = kani::any();
    kani::assume(k <= KMAX && len - (end - start) + k > cap);
    tok_init(TV, esz);
    let mut ext = MaybeUninit::<T>::uninit();
    let xp = ext.as_mut_ptr() as *mut u8;
    if !typed {
        let repl = RawRepl { left: k, report: k, p: xp, esz, tid: TypeId::of::<T>() };
        let mut s = v.splice(start..end, repl);
        advance(s.0.iter_mut(), start, end, f, b, w, has_w);
        core::mem::drop(s);
    } else {
        let p = AnyVecRawPtr::<T, GhostB>::from(NonNull::from(&mut v.raw));
        let repl = TypedRepl::<T> { left: k, report: k, mk };
        let mut s = crate::ops::Iter(crate::ops::splice::Splice::new(p, start, end, repl));
        advance(s.0.iter_mut(), start, end, f, b, w, has_w);
        core::mem::drop(s);
    }
    kani::cover!(true, "RETURNED");
}


/// the public typed API (`AnyVecTyped::{drain,splice}`): range conversion + adapter, one item taken
/// from the front (returned by value as T), then the adapter is dropped
fn typed_api_h<T: 'static>(splice: bool, mk: fn() -> T) {
    typed_api_hf::<T>(splice, false, mk)
}

/// `fixed`: on fixed-capacity storage, for every state in which the result fits the capacity (C11: "every
/// operation whose result fits that capacity ... behaves exactly as on the heap backend")
fn typed_api_hf<T: 'static>(splice: bool, fixed: bool, mk: fn() -> T) {
    ghost_init();
    let (len, cap) = sym_state();
    let mut v = unsafe { mk_vec::<dyn None, T>(0, len, cap, fixed, false) };
    reg(&v, 0);
    let esz = size_of::<T>();
    let has_w = len > 0;
    let w = if has_w { witness_slot(TW, 0, len) } else { 0 };
    let start = any_narrow();
    let end = any_narrow();
    kani::assume(start <= end && end <= len);
    let take: bool = kani::any();
    let f = if take && start < end { 1 } else { 0 };
    tok_init(TV, esz);
    let k = if splice { 1 } else { 0 };
    if fixed { kani::assume(len - (end - start) + k <= cap); }
    {
        let mut t = v.downcast_mut::<T>().unwrap();
        if splice {
            let mut it = t.splice(start..end, [mk()]);
            kani::assert(it.len() == end - start, "typed splice: reports the range length");
            if take { let x = it.next(); kani::assert(x.is_some() == (start < end), "typed splice: first item exactly when the range is non-empty"); core::mem::forget(x); }
        } else {
            let mut it = t.drain(start..end);
            kani::assert(it.len() == end - start, "typed drain: reports the range length");
            if take { let x = it.next(); kani::assert(x.is_some() == (start < end), "typed drain: first item exactly when the range is non-empty"); core::mem::forget(x); }
        }
    }
    let len2 = v.len();
    kani::assert(len2 == post::splice_len(len, start, end, k), "typed drain/splice API: len' as Vec");
    if post::splice_len(len, start, end, k) <= cap {
        kani::assert(g().v[0].cap_changes == 0 && v.capacity() == cap, "typed drain/splice API: capacity untouched when the result fits (also on fixed-capacity storage)");
    }
    kani::assert(g().out_count == f && g().total_destroyed == 0, "typed drain/splice API: exactly the taken item is moved out (no destructor: type without drop glue)");
    if esz != 0 && has_w {
        let kind = post::splice_old_kind(len, start, end, f, 0, w);
        let pos = if kind == 0 { post::splice_old_pos(len, start, end, k, w) } else { 0 };
        let (n, p, a, d, o) = obs(TW, 0, len2, pos);
        let d = if kind == 1 { 1 } else { d };
        kani::assert(post::fate_ok(kind, pos, n, p, a, d, o), "typed drain/splice API: every old element has the fate Vec gives it");
    }
    kani::cover!(take && start < end && end < len, "COV item taken, tail present");
    kani::cover!(true, "REACHED");
    core::mem::forget(v);
}

include!("k2_range.inst.rs");
