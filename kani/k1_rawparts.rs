//! C17: into_raw_parts / RawParts::clone / from_raw_parts are lossless (ghost backend and Empty).
use core::alloc::Layout;
use core::any::TypeId;
use core::mem::size_of;
use crate::{AnyVec, RawParts};
use crate::any_vec_raw::DropFn;
use crate::clone_type::CloneFn;
use crate::mem::{Empty, Mem};
use crate::traits::{Cloneable, None};
use super::ghost::*;
use super::types::*;
use super::util::*;

fn rawparts_h<T: 'static>(cloneable: bool) {
    ghost_init();
    let (len, cap) = sym_state();
    let esz = size_of::<T>();
    let has_w = len > 0;
    let dropf: bool = kani::any();
    macro_rules! body { ($tr:ty) => {{
        let v = unsafe { mk_vec::<$tr, T>(0, len, cap, false, dropf) };
        let w = if has_w { witness_slot(TW, 0, len) } else { 0 };
        let drop0 = v.element_drop();
        let clone0 = v.clone_fn();
        let p = v.into_raw_parts();
        kani::assert(g().total_destroyed == 0 && g().n_moves == 0 && g().v[0].releases == 0 && g().v[0].cap_changes == 0,
            "into_raw_parts destroys, moves and releases nothing");
        kani::assert(p.len == len && p.capacity == cap && p.element_layout == Layout::new::<T>() && p.element_typeid == TypeId::of::<T>(),
            "into_raw_parts reports the true length, capacity, layout and type id");
        kani::assert(p.element_drop == drop0 && (!cloneable || p.element_clone == clone0) && p.mem_handle.k == 0,
            "into_raw_parts reports the vector's drop function, clone function and storage handle");
        let q = p.clone();
        kani::assert(q.len == p.len && q.capacity == p.capacity && q.element_layout == p.element_layout && q.element_typeid == p.element_typeid
            && q.element_drop == p.element_drop && q.element_clone == p.element_clone && q.mem_handle.k == p.mem_handle.k
            && q.mem_builder.k == p.mem_builder.k && q.mem_builder.fixed == p.mem_builder.fixed,
            "a field-wise clone of the parts reports the same values");
        core::mem::forget(q);
        let v2: AnyVec<$tr, GhostB> = unsafe { AnyVec::from_raw_parts(p) };
        kani::assert(v2.len() == len && v2.capacity() == cap && v2.element_layout() == Layout::new::<T>() && v2.element_typeid() == TypeId::of::<T>()
            && v2.element_drop() == drop0 && (!cloneable || v2.clone_fn() == clone0),
            "from_raw_parts(into_raw_parts(v)) has every field of v");
        kani::assert(off(v2.raw.mem.as_ptr()) == Some(base(0)) && g().v[0].live, "the rebuilt vector owns the same storage");
        if esz != 0 && has_w {
            let (n, pz, a, d, o) = obs(TW, 0, v2.len(), w);
            kani::assert(n == 1 && pz == w && d == 0 && o == 0, "round trip: elements untouched");
        }
        core::mem::forget(v2);
    }}}
    if cloneable { body!(dyn Cloneable) } else { body!(dyn None) }
    kani::cover!(len > 0 && len < cap, "COV partly filled");
    kani::cover!(true, "REACHED");
}

/// Empty backend: zero capacity round trip
fn rawparts_empty_h<T: 'static>() {
    let v: AnyVec<dyn None, Empty> = AnyVec::new_in::<T>(Empty);
    let d0 = v.element_drop();
    kani::assert(v.capacity() == 0 && v.len() == 0, "Empty backend: zero capacity");
    let p = v.into_raw_parts();
    kani::assert(p.len == 0 && p.capacity == 0 && p.element_layout == Layout::new::<T>() && p.element_typeid == TypeId::of::<T>() && p.element_drop == d0,
        "into_raw_parts (Empty) reports true length, capacity, layout, type id, drop function");
    let q = p.clone();
    kani::assert(q.len == p.len && q.capacity == p.capacity && q.element_layout == p.element_layout && q.element_typeid == p.element_typeid && q.element_drop == p.element_drop,
        "a field-wise clone of the parts (Empty) reports the same values");
    let v2: AnyVec<dyn None, Empty> = unsafe { AnyVec::from_raw_parts(q) };
    kani::assert(v2.len() == 0 && v2.capacity() == 0 && v2.element_layout() == Layout::new::<T>() && v2.element_typeid() == TypeId::of::<T>() && v2.element_drop() == d0,
        "from_raw_parts (Empty) has every field of the original");
    kani::cover!(true, "REACHED");
}

include!("k1_rawparts.inst.rs");
