//! Ghost backend, effect recorders (the *contracts* of the memory primitives and of user
//! call-outs) and witness tokens.  See /verif/DESIGN.md §3.2.
//!
//! Nothing in here dereferences element storage: `GhostMem` hands out pointers into one
//! huge arena object and every primitive that would touch it is replaced (kani::stub or
//! fn-pointer field) by a recorder that (a) asserts the primitive's precondition against
//! the *current* region of the relocating backend and (b) applies the primitive's
//! postcondition to a small set of witness tokens.

use core::alloc::Layout;
use crate::mem::{Mem, MemBuilder, MemBuilderSizeable, MemRawParts, MemResizable};

extern crate alloc;

/// Largest capacity (elements) a ghost vector may have in a harness.
pub const CAPMAX: usize = 1 << 20;
pub const ARENA_BYTES: usize = 1 << 40;
/// Unused bytes between regions: larger than any element, so off-by-one-element errors
/// land in the gap and not in another live region.
pub const GAP: usize = 4096;

pub const NV: usize = 2; // ghost vectors
pub const NT: usize = 3; // witness tokens
pub const NC: usize = 3; // bitwise copies tracked per token

pub const TW: usize = 0; // the value initially in slot `w` of vector 0
pub const TV: usize = 1; // the `in_witness`-th incoming value
pub const TC: usize = 2; // the clone of TW / second old-slot witness (harness dependent)

#[derive(Clone, Copy)]
pub struct Tok {
    pub active: bool,
    pub size: usize,
    pub addr: [usize; NC],
    pub live: [bool; NC],
    /// how many times a destructor ran on a copy of this value
    pub destroyed: usize,
    /// how many times it was used as the source of a clone
    pub cloned: usize,
    /// how many times its bits were moved out of storage into a caller buffer
    pub out: usize,
}

#[derive(Clone, Copy)]
pub struct VecG {
    pub live: bool,
    pub base: usize,
    pub cap: usize,
    pub fixed: bool,
    pub len_ptr: *const usize,
    pub builds: usize,
    pub build_size: usize,
    pub build_align: usize,
    pub releases: usize,
    pub cap_changes: usize,
    pub destroyed_at_release: usize,
    pub last_expand: usize,
    pub last_resize: usize,
}

pub struct Ghost {
    /// element size shared by all ghost vectors of a harness (a compile-time constant there)
    pub esz: usize,
    pub arena: *mut u8,
    pub next_free: usize,
    pub v: [VecG; NV],
    pub t: [Tok; NT],
    /// when set, every storage effect is an obligation failure ("panics before anything changes")
    pub armed: bool,
    /// when set: the length every registered vector must still have at the moment a fixed-capacity backend
    /// refuses to grow ("push or insert beyond it panics leaving the contents unchanged")
    pub panic_len_on: bool,
    pub panic_len: usize,
    /// capacity the builders stored inside harness vectors give to memory they build (clone targets)
    pub next_build_cap: usize,
    pub n_moves: usize,
    pub n_drop_calls: usize,
    pub n_clone_calls: usize,
    pub total_destroyed: usize,
    pub ext_destroyed: usize,
    pub total_cloned: usize,
    pub in_count: usize,
    pub in_witness: usize,
    pub in_last_dst: usize,
    pub out_count: usize,
    pub out_last_src: usize,
    pub last_drop_at: usize,
    pub last_drop_n: usize,
    pub last_clone_src: usize,
    pub last_clone_dst: usize,
    pub last_clone_n: usize,
    /// an uninitialised slot (address), watched for semantic reads
    pub uninit_on: bool,
    pub uninit_at: usize,
    /// expected external source of the next incoming value (checked when set)
    pub ext_src_on: bool,
    pub ext_src: *const u8,
    /// expected external destination of the next outgoing value
    pub ext_dst_on: bool,
    pub ext_dst: *const u8,
}

const TOK0: Tok = Tok { active: false, size: 0, addr: [0; NC], live: [false; NC], destroyed: 0, cloned: 0, out: 0 };
const VEC0: VecG = VecG {
    live: false, base: 0, cap: 0, fixed: false, len_ptr: core::ptr::null(),
    builds: 0, build_size: 0, build_align: 0, releases: 0, cap_changes: 0,
    destroyed_at_release: 0, last_expand: 0, last_resize: 0,
};

/// initial ghost state (also re-assigned by `ghost_init`, so no harness depends on static initialisation)
const G0: Ghost = Ghost {
    esz: 0,
    arena: core::ptr::null_mut(),
    next_free: GAP,
    v: [VEC0; NV],
    t: [TOK0; NT],
    armed: false,
    panic_len_on: false,
    panic_len: 0,
    next_build_cap: 0,
    n_moves: 0, n_drop_calls: 0, n_clone_calls: 0, total_destroyed: 0, ext_destroyed: 0, total_cloned: 0,
    in_count: 0, in_witness: 0, in_last_dst: 0, out_count: 0, out_last_src: 0,
    last_drop_at: 0, last_drop_n: 0, last_clone_src: 0, last_clone_dst: 0, last_clone_n: 0,
    uninit_on: false, uninit_at: 0,
    ext_src_on: false, ext_src: core::ptr::null(),
    ext_dst_on: false, ext_dst: core::ptr::null(),
};
pub static mut G: Ghost = G0;

#[inline(always)]
pub fn g() -> &'static mut Ghost {
    unsafe { &mut *core::ptr::addr_of_mut!(G) }
}

/// Allocates the arena. Must be called first in every harness that uses the ghost backend.
pub fn ghost_init() {
    let gh = g();
    *gh = G0;
    unsafe {
        gh.arena = alloc::alloc::alloc(Layout::from_size_align_unchecked(ARENA_BYTES, 64));
    }
    kani::assume(!gh.arena.is_null());
}

/// Offset of `p` inside the arena, or `None` for a pointer to anything else (caller buffers).
#[inline(always)]
pub fn off(p: *const u8) -> Option<usize> {
    let gh = g();
    if kani::mem::same_allocation(p, gh.arena as *const u8) {
        Some(unsafe { p.offset_from(gh.arena as *const u8) } as usize)
    } else {
        None
    }
}

#[inline(always)]
pub fn arena_ptr(offset: usize) -> *mut u8 {
    unsafe { g().arena.add(offset) }
}

// ------------------------------------------------------------------------------------------
// regions

fn region_bytes(k: usize) -> usize {
    g().v[k].cap * g().esz
}

/// `[a, a+n)` lies inside the *current* region of some live ghost vector.
pub fn in_current_region(a: usize, n: usize) -> bool {
    let mut ok = false;
    let mut k = 0;
    while k < NV {
        let v = &g().v[k];
        if v.live && v.base <= a && a + n <= v.base + region_bytes(k) {
            ok = true;
        }
        k += 1;
    }
    ok
}

/// Index of the live vector whose current region contains address `a` (region end inclusive,
/// so one-past-the-end pointers of empty ranges resolve too); NV if none.
pub fn vec_of(a: usize) -> usize {
    let mut r = NV;
    let mut k = 0;
    while k < NV {
        let v = &g().v[k];
        if v.live && v.base <= a && a <= v.base + region_bytes(k) {
            r = k;
        }
        k += 1;
    }
    r
}

/// Registers ghost vector `k` with a fresh region of `cap` elements.
pub fn region_new(k: usize, cap: usize, esz: usize, fixed: bool) {
    let gh = g();
    let base = gh.next_free;
    gh.next_free = (base + cap * esz + GAP + 63) & !63;
    gh.esz = esz;
    let v = &mut gh.v[k];
    v.live = true;
    v.base = base;
    v.cap = cap;
    v.fixed = fixed;
}

fn relocate(k: usize, new_cap: usize) {
    let gh = g();
    kani::assert(!gh.armed, "no storage effect before the expected panic");
    kani::assert(gh.v[k].live, "C05: backend used after release");
    let esz = gh.esz;
    let old_base = gh.v[k].base;
    let old_bytes = gh.v[k].cap * esz;
    let keep = if new_cap < gh.v[k].cap { new_cap * esz } else { old_bytes };
    let new_base = gh.next_free;
    gh.next_free = (new_base + new_cap * esz + GAP + 63) & !63;
    let mut t = 0;
    while t < NT {
        let mut c = 0;
        while c < NC {
            let tk = &mut gh.t[t];
            if tk.live[c] && old_base <= tk.addr[c] && tk.addr[c] + tk.size <= old_base + old_bytes {
                if tk.addr[c] + tk.size <= old_base + keep {
                    tk.addr[c] = tk.addr[c] - old_base + new_base;
                } else {
                    tk.live[c] = false;
                }
            }
            c += 1;
        }
        t += 1;
    }
    if gh.uninit_on && old_base <= gh.uninit_at && gh.uninit_at < old_base + old_bytes {
        if gh.uninit_at + esz <= old_base + keep {
            gh.uninit_at = gh.uninit_at - old_base + new_base;
        } else {
            gh.uninit_on = false;
        }
    }
    gh.v[k].base = new_base;
    gh.v[k].cap = new_cap;
    gh.v[k].cap_changes += 1;
}

/// Current `len` of ghost vector `k`, read through the registered ghost pointer.
pub fn cur_len(k: usize) -> usize {
    let v = &g().v[k];
    unsafe { *v.len_ptr }
}

// ------------------------------------------------------------------------------------------
// tokens

pub fn tok_init(t: usize, size: usize) {
    let tk = &mut g().t[t];
    *tk = TOK0;
    tk.active = true;
    tk.size = size;
}

pub fn tok_place(t: usize, addr: usize) {
    tok_add_copy(t, addr);
}

fn tok_add_copy(t: usize, addr: usize) {
    let tk = &mut g().t[t];
    let mut c = 0;
    let mut done = false;
    while c < NC {
        if !done && !tk.live[c] {
            tk.live[c] = true;
            tk.addr[c] = addr;
            done = true;
        }
        c += 1;
    }
    kani::assert(done, "ghost: more bitwise copies of one value than the ghost tracks");
}

#[inline(always)]
fn overlaps(a: usize, an: usize, b: usize, bn: usize) -> bool {
    a < b + bn && b < a + an
}

/// Number of copies of token `t` visible in ghost vector `k` with `len` elements, and the address
/// (relative to the region base) of the (last) visible copy.
pub fn tok_visible_in(t: usize, k: usize, len: usize) -> (usize, usize) {
    let gh = g();
    let v = &gh.v[k];
    let tk = &gh.t[t];
    let mut n = 0;
    let mut rel = usize::MAX;
    if v.live && tk.active && gh.esz != 0 {
        let end = v.base + len * gh.esz;
        let mut c = 0;
        while c < NC {
            if tk.live[c] && v.base <= tk.addr[c] && tk.addr[c] < end {
                n += 1;
                rel = tk.addr[c] - v.base;
            }
            c += 1;
        }
    }
    (n, rel)
}

/// Visible copies of token `t` over all ghost vectors at their *current* lengths.
pub fn tok_visible_now(t: usize) -> usize {
    let mut n = 0;
    let mut k = 0;
    while k < NV {
        if g().v[k].live && !g().v[k].len_ptr.is_null() {
            let len = cur_len(k);
            kani::assert(len <= g().v[k].cap, "len <= capacity whenever user code runs");
            if len <= g().v[k].cap {
                n += tok_visible_in(t, k, len).0;
            }
        }
        k += 1;
    }
    n
}

/// The panic-view invariant (DESIGN §3.6): asserted whenever user code is about to run.
/// If it holds here, a panic of that user code leaves every vector valid.
pub fn callout_invariant() {
    let mut t = 0;
    while t < NT {
        if g().t[t].active {
            let vis = tok_visible_now(t);
            kani::assert(vis <= 1, "C06: at a call-out no value is visible twice");
            kani::assert(
                !(vis >= 1 && (g().t[t].destroyed > 0 || g().t[t].out > 0)),
                "C06: at a call-out no destroyed or moved-out value is visible",
            );
        }
        t += 1;
    }
}

fn semantic_read(a: usize, n: usize) {
    let gh = g();
    if gh.uninit_on {
        let k = vec_of(gh.uninit_at);
        if k < NV {
            let esz = gh.esz;
            kani::assert(!overlaps(a, n, gh.uninit_at, if esz == 0 { 1 } else { esz }),
                "C05: no element is read before it was written");
        }
    }
}

fn written(d: usize, n: usize) {
    let gh = g();
    if gh.uninit_on && d <= gh.uninit_at {
        let k = vec_of(gh.uninit_at);
        if k < NV && gh.uninit_at + gh.esz <= d + n {
            gh.uninit_on = false;
        }
    }
}

/// kills every live copy overlapped by a write to `[d, d+n)`
fn tokens_kill(d: usize, n: usize) {
    let gh = g();
    let mut t = 0;
    while t < NT {
        let mut c = 0;
        while c < NC {
            let tk = &mut gh.t[t];
            if tk.live[c] && overlaps(tk.addr[c], if tk.size == 0 { 1 } else { tk.size }, d, n) {
                tk.live[c] = false;
            }
            c += 1;
        }
        t += 1;
    }
}

// ------------------------------------------------------------------------------------------
// the contract of memmove / memcpy

/// Contract of `ptr::copy` / `copy_bytes` (memmove) and, with `nonoverlapping`, of
/// `ptr::copy_nonoverlapping`, over `n` bytes.
pub unsafe fn rec_move(src: *const u8, dst: *mut u8, n: usize, nonoverlapping: bool) {
    let gh = g();
    gh.n_moves += 1;
    if n == 0 {
        return;
    }
    kani::assert(!gh.armed, "no storage effect before the expected panic");
    let s = off(src);
    let d = off(dst as *const u8);
    if let Some(s) = s {
        kani::assert(in_current_region(s, n), "C05: bytes read lie inside the current storage (in bounds, not stale)");
    }
    if let Some(d) = d {
        kani::assert(in_current_region(d, n), "C05: bytes written lie inside the current storage (in bounds, not stale)");
    }
    match (s, d) {
        (Some(s), Some(d)) => {
            if nonoverlapping {
                kani::assert(s + n <= d || d + n <= s, "copy_nonoverlapping: ranges are disjoint");
            }
            // new copies, computed from the pre-state
            let mut newc: [[(bool, usize); NC]; NT] = [[(false, 0); NC]; NT];
            let mut t = 0;
            while t < NT {
                let mut c = 0;
                while c < NC {
                    let tk = &gh.t[t];
                    if tk.active && tk.live[c] && s <= tk.addr[c] && tk.addr[c] + tk.size <= s + n {
                        newc[t][c] = (true, tk.addr[c] - s + d);
                    }
                    c += 1;
                }
                t += 1;
            }
            tokens_kill(d, n);
            let mut t = 0;
            while t < NT {
                let mut c = 0;
                while c < NC {
                    if newc[t][c].0 {
                        tok_add_copy(t, newc[t][c].1);
                    }
                    c += 1;
                }
                t += 1;
            }
            written(d, n);
        }
        (None, Some(d)) => {
            // an incoming value is written into storage
            let k = vec_of(d);
            kani::assert(k < NV && n == gh.esz, "an incoming value is written with exactly the element size");
            if gh.ext_src_on {
                kani::assert(src == gh.ext_src, "the incoming bytes come from the offered value");
            }
            tokens_kill(d, n);
            if gh.in_count == gh.in_witness && gh.t[TV].active {
                tok_add_copy(TV, d);
            }
            gh.in_count += 1;
            gh.in_last_dst = d;
            written(d, n);
        }
        (Some(s), None) => {
            // a value is moved out of storage into a caller buffer
            let k = vec_of(s);
            kani::assert(k < NV && n == gh.esz, "an outgoing value is read with exactly the element size");
            if gh.ext_dst_on {
                kani::assert(dst as *const u8 == gh.ext_dst, "the outgoing bytes go to the requested buffer");
            }
            semantic_read(s, n);
            let mut t = 0;
            while t < NT {
                let mut c = 0;
                while c < NC {
                    let tk = &mut gh.t[t];
                    if tk.active && tk.live[c] && s <= tk.addr[c] && tk.addr[c] + tk.size <= s + n {
                        kani::assert(tk.destroyed == 0, "C05: no value is moved out after it was destroyed");
                        kani::assert(tk.out == 0, "C03: no value is moved out twice");
                        tk.out += 1;
                    }
                    c += 1;
                }
                t += 1;
            }
            gh.out_count += 1;
            gh.out_last_src = s;
        }
        (None, None) => {}
    }
}

// stubs with the generic arity of the originals ------------------------------------------------

pub unsafe fn stub_copy_bytes(src: *const u8, dst: *mut u8, count: usize) {
    rec_move(src, dst, count, false)
}
pub unsafe fn stub_ptr_copy<T>(src: *const T, dst: *mut T, count: usize) {
    rec_move(src as *const u8, dst as *mut u8, count * core::mem::size_of::<T>(), false)
}
pub unsafe fn stub_ptr_copy_nonoverlapping<T>(src: *const T, dst: *mut T, count: usize) {
    rec_move(src as *const u8, dst as *mut u8, count * core::mem::size_of::<T>(), true)
}

// ------------------------------------------------------------------------------------------
// the contract of the element destructor (`drop_fn` field / `Drop` of harness element types)

pub unsafe fn rec_drop(ptr: *mut u8, count: usize) {
    let gh = g();
    gh.n_drop_calls += 1;
    if count == 0 {
        return;
    }
    kani::assert(!gh.armed, "no storage effect before the expected panic");
    let a = match off(ptr as *const u8) {
        Some(a) => a,
        None => {
            // a value owned by the caller (returned / rejected value) is destroyed by the caller
            gh.ext_destroyed += count;
            return;
        }
    };
    let k = vec_of(a);
    kani::assert(k < NV, "C05: destructor target lies inside the current storage (not stale)");
    if k >= NV {
        return;
    }
    let esz = gh.esz;
    kani::assert(count <= gh.v[k].cap, "C05: destroyed range fits the capacity");
    if count > gh.v[k].cap {
        return;
    }
    let bytes = count * esz;
    kani::assert(in_current_region(a, bytes), "C05: destroyed range lies inside the current storage");
    if esz != 0 {
        kani::assert((a - gh.v[k].base) % esz == 0, "C05: destroyed range starts on an element boundary");
        semantic_read(a, bytes);
    }
    let mut t = 0;
    while t < NT {
        let mut c = 0;
        while c < NC {
            let tk = &mut gh.t[t];
            if esz != 0 && tk.active && tk.live[c] && a <= tk.addr[c] && tk.addr[c] + tk.size <= a + bytes {
                kani::assert(tk.destroyed == 0, "C03: no value is destroyed twice");
                kani::assert(tk.out == 0, "C03: no value is destroyed after it was moved out");
                tk.destroyed += 1;
            }
            c += 1;
        }
        t += 1;
    }
    gh.total_destroyed += count;
    gh.last_drop_at = a;
    gh.last_drop_n = count;
    // user code (the destructors) runs now: the panic-view invariant must hold with the
    // whole range already counted as destroyed (covers a panic after any i-th element)
    callout_invariant();
}

// ------------------------------------------------------------------------------------------
// the contract of the element clone function (`clone_fn`)

pub unsafe fn rec_clone(src: *const u8, dst: *mut u8, count: usize) {
    let gh = g();
    gh.n_clone_calls += 1;
    if count == 0 {
        return;
    }
    kani::assert(!gh.armed, "no storage effect before the expected panic");
    let s = match off(src) {
        Some(s) => s,
        None => {
            kani::assert(false, "clone source lies inside vector storage");
            return;
        }
    };
    let k = vec_of(s);
    kani::assert(k < NV, "C05: clone source lies inside the current storage (not stale)");
    if k >= NV {
        return;
    }
    let esz = gh.esz;
    kani::assert(count <= gh.v[k].cap, "C05: cloned range fits the capacity");
    if count > gh.v[k].cap {
        return;
    }
    let bytes = count * esz;
    kani::assert(in_current_region(s, bytes), "C05: cloned range lies inside the current source storage");
    if esz != 0 {
        kani::assert((s - gh.v[k].base) % esz == 0, "C05: cloned range starts on an element boundary");
        semantic_read(s, bytes);
    }
    // user code (the element's Clone) runs now, before anything is written: the panic-view
    // invariant must hold in the state the call-out finds
    callout_invariant();
    // zero-sized clones write nothing: their target pointer carries no address to check
    let d = if bytes == 0 { None } else { off(dst as *const u8) };
    if let Some(d) = d {
        kani::assert(in_current_region(d, bytes), "C05: clones are written inside the current target storage");
        let kd = vec_of(d);
        if kd < NV && !gh.v[kd].len_ptr.is_null() {
            let ld = cur_len(kd);
            kani::assert(ld <= gh.v[kd].cap && d >= gh.v[kd].base + ld * esz,
                "C06: a clone is written only into a slot that is not visible (a panicking Clone leaves nothing uninitialised in sight)");
        }
        kani::assert(bytes == 0 || s + bytes <= d || d + bytes <= s, "clone target does not overlap its source");
        tokens_kill(d, bytes);
        written(d, bytes);
    } else if gh.ext_dst_on && bytes != 0 {
        kani::assert(dst as *const u8 == gh.ext_dst, "the clone goes to the requested buffer");
    }
    let mut t = 0;
    while t < NT {
        let mut c = 0;
        while c < NC {
            let tk = &mut gh.t[t];
            if esz != 0 && t != TC && tk.active && tk.live[c] && s <= tk.addr[c] && tk.addr[c] + tk.size <= s + bytes {
                kani::assert(tk.destroyed == 0 && tk.out == 0, "C05: clone source is alive (not destroyed, not moved out)");
                tk.cloned += 1;
                let delta = tk.addr[c] - s;
                if t == TW && g().t[TC].active {
                    match d {
                        Some(d) => tok_add_copy(TC, d + delta),
                        None => g().t[TC].out += 1,
                    }
                }
            }
            c += 1;
        }
        t += 1;
    }
    gh.total_cloned += count;
    gh.last_clone_src = s;
    gh.last_clone_dst = match off(dst as *const u8) { Some(d) => d, None => usize::MAX };
    gh.last_clone_n = count;
}

// ------------------------------------------------------------------------------------------
// the user-defined relocating backend

/// `K` = ghost vector index the *first* `build` registers; clones register K+1.
#[derive(Clone, Copy)]
pub struct GhostB {
    pub k: usize,
    pub fixed: bool,
    /// capacity (elements) of every memory chunk this builder creates (a fixed backend has all of
    /// its capacity from the start; a resizable one typically starts at 0)
    pub build_cap: usize,
}

pub struct GhostMem {
    pub k: usize,
    pub layout: Layout,
}

#[derive(Clone, Copy)]
pub struct GhostHandle {
    pub k: usize,
}

/// A `GhostMem` only ever lives in the `mem` field of an `AnyVecRaw<GhostB>`: the address of that vector's
/// `len` field (also for vectors under construction inside the library, e.g. the target of `clone`).
fn container_len_ptr(m: &GhostMem) -> *const usize {
    use crate::any_vec_raw::AnyVecRaw;
    let off_mem = core::mem::offset_of!(AnyVecRaw<GhostB>, mem);
    let off_len = core::mem::offset_of!(AnyVecRaw<GhostB>, len);
    unsafe { (m as *const GhostMem as *const u8).sub(off_mem).add(off_len) as *const usize }
}

impl MemBuilder for GhostB {
    type Mem = GhostMem;
    fn build(&mut self, element_layout: Layout) -> GhostMem {
        let k = self.k;
        kani::assert(k < NV, "ghost: too many vectors built");
        let gh = g();
        gh.v[k].builds += 1;
        gh.v[k].build_size = element_layout.size();
        gh.v[k].build_align = element_layout.align();
        kani::assume(self.build_cap <= CAPMAX);
        region_new(k, self.build_cap, element_layout.size(), self.fixed);
        gh.v[k].len_ptr = core::ptr::null();
        GhostMem { k, layout: element_layout }
    }
}

impl MemBuilderSizeable for GhostB {
    fn build_with_size(&mut self, element_layout: Layout, capacity: usize) -> GhostMem {
        kani::assume(capacity <= CAPMAX);
        self.build_cap = capacity;
        let m = self.build(element_layout);
        g().v[m.k].last_resize = capacity;
        m
    }
}

impl Mem for GhostMem {
    fn as_ptr(&self) -> *const u8 {
        kani::assert(g().v[self.k].live, "C05: storage pointer requested after release");
        g().v[self.k].len_ptr = container_len_ptr(self);
        arena_ptr(g().v[self.k].base) as *const u8
    }
    fn as_mut_ptr(&mut self) -> *mut u8 {
        kani::assert(g().v[self.k].live, "C05: storage pointer requested after release");
        g().v[self.k].len_ptr = container_len_ptr(self);
        arena_ptr(g().v[self.k].base)
    }
    fn element_layout(&self) -> Layout {
        self.layout
    }
    fn size(&self) -> usize {
        g().v[self.k].cap
    }
    fn expand(&mut self, additional: usize) {
        let gh = g();
        gh.v[self.k].last_expand = additional;
        if gh.v[self.k].fixed {
            if gh.panic_len_on && !gh.v[self.k].len_ptr.is_null() {
                kani::assert(cur_len(self.k) == gh.panic_len, "beyond a fixed capacity: the length is untouched at the moment the backend refuses to grow");
            }
            // the refusal unwinds through the operation in progress: whatever the vectors show now is what
            // the caller is left with (C11: "... leaves the contents unchanged / valid")
            callout_invariant();
            // the trait's default behaviour for fixed-capacity memory
            panic!("Can't change capacity!");
        }
        kani::assert(additional <= CAPMAX && gh.v[self.k].cap + additional <= 2 * CAPMAX,
            "ghost: capacity request within the harness domain");
        // a resizable backend grows by *at least* `additional`
        let extra = (kani::any::<u32>() & 0x1F_FFFF) as usize;
        kani::assume(extra <= gh.v[self.k].cap + 1);
        relocate(self.k, gh.v[self.k].cap + additional + extra);
    }
}

impl MemResizable for GhostMem {
    fn resize(&mut self, new_size: usize) {
        let gh = g();
        gh.v[self.k].last_resize = new_size;
        kani::assert(!gh.v[self.k].fixed, "resize is never requested from fixed-capacity storage");
        if !gh.v[self.k].len_ptr.is_null() {
            kani::assert(new_size >= cur_len(self.k), "C05: storage is never resized below the live length");
        }
        kani::assert(new_size <= 2 * CAPMAX, "ghost: capacity request within the harness domain");
        relocate(self.k, new_size);
    }
}

impl MemRawParts for GhostMem {
    type Handle = GhostHandle;
    fn into_raw_parts(self) -> (GhostHandle, Layout, usize) {
        let this = core::mem::ManuallyDrop::new(self);
        (GhostHandle { k: this.k }, this.layout, g().v[this.k].cap)
    }
    unsafe fn from_raw_parts(handle: GhostHandle, element_layout: Layout, size: usize) -> Self {
        kani::assert(g().v[handle.k].cap == size, "from_raw_parts: capacity matches the storage");
        GhostMem { k: handle.k, layout: element_layout }
    }
}

impl Drop for GhostMem {
    fn drop(&mut self) {
        let gh = g();
        kani::assert(!gh.armed, "no storage effect before the expected panic");
        kani::assert(gh.v[self.k].live, "C05: storage released exactly once");
        gh.v[self.k].releases += 1;
        gh.v[self.k].destroyed_at_release = gh.total_destroyed;
        gh.v[self.k].live = false;
    }
}
