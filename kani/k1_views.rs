//! C12 / C13: byte and slice views expose exactly the initialised elements; spare views exactly the
//! rest; swap through any pairing of value handles exchanges exactly the two values.
use core::any::TypeId;
use core::mem::{size_of, MaybeUninit};
use core::ptr::NonNull;
use crate::AnyVec;
use crate::any_value::{AnyValue, AnyValueMut, AnyValueRaw, AnyValueWrapper, AnyValueSizeless, AnyValueSizelessMut, AnyValueTypeless, AnyValueTypelessMut};
use crate::mem::{Stack, StackN};
use crate::traits::None;
use super::ghost::*;
use super::types::*;
use super::util::*;

fn views_h<T: 'static>() {
    ghost_init();
    let (len, cap) = sym_state();
    let mut v = unsafe { mk_vec::<dyn None, T>(0, len, cap, false, false) };
    reg(&v, 0);
    let esz = size_of::<T>();
    {
        let b = v.as_bytes();
        kani::assert(off(b.as_ptr()) == Some(base(0)) && b.len() == len * esz, "as_bytes: exactly the len x size bytes of the elements, from the storage start");
    }
    {
        let b = v.as_bytes_mut();
        kani::assert(off(b.as_ptr()) == Some(base(0)) && b.len() == len * esz, "as_bytes_mut: exactly the len x size bytes of the elements");
    }
    {
        let s = v.spare_bytes_mut();
        kani::assert(off(s.as_ptr() as *const u8) == Some(base(0) + len * esz) && s.len() == (cap - len) * esz,
            "spare_bytes_mut: exactly the (capacity - len) x size bytes that follow the elements");
    }
    {
        let t = v.downcast_ref::<T>().unwrap();
        kani::assert(off(t.as_ptr() as *const u8) == Some(base(0)), "typed as_ptr is the storage start");
        let s = t.as_slice();
        kani::assert(off(s.as_ptr() as *const u8) == Some(base(0)) && s.len() == len, "as_slice: the len elements, aliasing the same storage");
    }
    {
        let mut t = v.downcast_mut::<T>().unwrap();
        kani::assert(off(t.as_mut_ptr() as *const u8) == Some(base(0)), "typed as_mut_ptr is the storage start");
        let s = t.as_mut_slice();
        kani::assert(off(s.as_ptr() as *const u8) == Some(base(0)) && s.len() == len, "as_mut_slice: the len elements");
        let sp = t.spare_capacity_mut();
        kani::assert(off(sp.as_ptr() as *const u8) == Some(base(0) + len * esz) && sp.len() == cap - len,
            "spare_capacity_mut: exactly the capacity - len slots that follow the elements");
    }
    // set_len: slots written into spare capacity become the new tail
    let k = any_narrow();
    kani::assume(k <= cap - len);
    unsafe { v.set_len(len + k) };
    kani::assert(v.len() == len + k && v.as_bytes().len() == (len + k) * esz, "set_len(len + k): the k slots after the old elements become the new tail");
    unsafe { v.downcast_mut::<T>().unwrap().set_len(len) };
    kani::assert(v.len() == len, "typed set_len sets the same length");
    kani::assert(g().n_moves == 0 && g().total_destroyed == 0 && g().v[0].cap_changes == 0, "views touch nothing");
    kani::cover!(len > 0 && len < cap, "COV partly filled");
    kani::cover!(true, "REACHED");
    core::mem::forget(v);
}

/// Contract model of the trusted intrinsic `ptr::swap_nonoverlapping` on real memory, for at most 8
/// bytes (loop-free): exchanges the two byte ranges.
pub unsafe fn swap_no_model<T>(a: *mut T, b: *mut T, n: usize) {
    let bytes = n * size_of::<T>();
    kani::assert(bytes <= 8, "swap model: at most 8 bytes");
    let (pa, pb) = (a as *mut u8, b as *mut u8);
    let mut k = 0;
    while k < 8 {
        if k < bytes { let t = *pa.add(k); *pa.add(k) = *pb.add(k); *pb.add(k) = t; }
        k += 1;
    }
}

// ---- swap on real memory -------------------------------------------------------------------------
pub const H_ELEM_MUT: usize = 0; // ElementMut of a vector
pub const H_TEMP: usize = 1; // removal handle before it is consumed
pub const H_WRAPPER: usize = 2; // AnyValueWrapper<T>
pub const H_RAW: usize = 3; // AnyValueRaw over a caller value

type SV = AnyVec<dyn None, Stack<32>>;
fn fill(v: &mut SV, a: [u64; 3]) {
    let mut t = v.downcast_mut::<u64>().unwrap();
    t.push(a[0]); t.push(a[1]); t.push(a[2]);
}
fn snap(v: &SV) -> [u64; 3] { let s = v.downcast_ref::<u64>().unwrap(); [*s.at(0), *s.at(1), *s.at(2)] }

/// a.swap(&mut b) for every ordered pair of handle kinds: exactly the two values are exchanged,
/// every other element of both vectors is unchanged, every view sees the same result
fn swap_h(ka: usize, kb: usize) {
    let xa: [u64; 3] = kani::any();
    let xb: [u64; 3] = kani::any();
    let ya: u64 = kani::any();
    let yb: u64 = kani::any();
    let mut va: SV = AnyVec::new::<u64>();
    let mut vb: SV = AnyVec::new::<u64>();
    fill(&mut va, xa);
    fill(&mut vb, xb);
    let i: usize = kani::any();
    let j: usize = kani::any();
    kani::assume(i < 3 && j < 3);
    let mut oa = ya;
    let mut ob = yb;
    macro_rules! with_b { ($a:expr) => {{
        let mut a = $a;
        if kb == H_ELEM_MUT { let mut b = vb.at_mut(j); a.swap(&mut *b); }
        else if kb == H_TEMP { let mut b = vb.remove(j); a.swap(&mut b); core::mem::forget(b); unsafe { vb.set_len(3) }; }
        else if kb == H_WRAPPER { let mut b = AnyValueWrapper::new(ob); a.swap(&mut b); ob = b.downcast::<u64>().unwrap(); }
        else { let mut b = unsafe { AnyValueRaw::new(NonNull::from(&mut ob).cast::<u8>(), 8, TypeId::of::<u64>()) }; a.swap(&mut b); }
    }}}
    if ka == H_ELEM_MUT { let mut a = va.at_mut(i); with_b!(&mut *a); }
    else if ka == H_TEMP { let mut a = va.remove(i); with_b!(&mut a); core::mem::forget(a); unsafe { va.set_len(3) }; }
    else if ka == H_WRAPPER { let mut a = AnyValueWrapper::new(oa); with_b!(&mut a); oa = a.downcast::<u64>().unwrap(); }
    else { let mut a = unsafe { AnyValueRaw::new(NonNull::from(&mut oa).cast::<u8>(), 8, TypeId::of::<u64>()) }; with_b!(&mut a); }

    let (sa, sb) = (snap(&va), snap(&vb));
    let a_in_vec = ka == H_ELEM_MUT || ka == H_TEMP;
    let b_in_vec = kb == H_ELEM_MUT || kb == H_TEMP;
    let old_a = if a_in_vec { xa[i] } else { ya };
    let old_b = if b_in_vec { xb[j] } else { yb };
    let new_a = if a_in_vec { sa[i] } else { oa };
    let new_b = if b_in_vec { sb[j] } else { ob };
    kani::assert(new_a == old_b && new_b == old_a, "swap exchanges exactly the two values, for every pairing of handle kinds");
    let w: usize = kani::any();
    kani::assume(w < 3);
    kani::assert((a_in_vec && w == i) || sa[w] == xa[w], "swap changes no other element of the first vector");
    kani::assert((b_in_vec && w == j) || sb[w] == xb[w], "swap changes no other element of the second vector");
    kani::assert(a_in_vec || b_in_vec || (oa == yb && ob == ya), "swap of two caller values exchanges them");
    // coherence: the byte view and the erased element view show the same value as the typed view
    if a_in_vec {
        let bytes = va.as_bytes();
        let mut le = [0u8; 8];
        let mut q = 0; while q < 8 { le[q] = bytes[i * 8 + q]; q += 1; }
        kani::assert(u64::from_le_bytes(le) == sa[i], "byte view sees the swapped value");
        kani::assert(*va.at(i).downcast_ref::<u64>().unwrap() == sa[i], "erased element view sees the swapped value");
    }
    kani::cover!(true, "REACHED");
    // the vectors are not dropped here: a symbolic-index write into inline (Stack) storage makes CBMC lose
    // the constant `drop_fn` field of the same object, and the destructor's function-pointer call then fans
    // out over every address-taken function (u64 has no destructor anyway)
    core::mem::forget(va);
    core::mem::forget(vb);
}

/// Views and handle reports on the REAL inline backends, instantiated with slack (SIZE is not N x size): the
/// operation contracts run on the ghost backend, so anything a built-in backend answers by itself (a provided
/// `Mem` method it overrides) is only seen here.  Real memory; every length 0..=capacity of the instance.
fn inline_views_h<M: crate::mem::MemBuilder + Default, T: Copy + kani::Arbitrary + 'static, const CAP: usize>() {
    let x: [T; CAP] = kani::any();
    let len: usize = kani::any();
    kani::assume(len <= CAP);
    let esz = size_of::<T>();
    let mut v: AnyVec<dyn None, M> = AnyVec::new::<T>();
    { let mut t = v.downcast_mut::<T>().unwrap(); let mut i = 0; while i < CAP { if i < len { t.push(x[i]); } i += 1; } }
    kani::assert(v.capacity() == CAP && v.len() == len, "inline backend: the stated capacity");
    let b0 = v.as_bytes().as_ptr() as usize;
    kani::assert(v.as_bytes().len() == len * esz, "as_bytes: exactly len x size bytes (inline backend)");
    kani::assert(v.as_bytes_mut().len() == len * esz && v.as_bytes_mut().as_ptr() as usize == b0, "as_bytes_mut: exactly len x size bytes (inline backend)");
    {
        let s = v.spare_bytes_mut();
        kani::assert(s.len() == (CAP - len) * esz && s.as_ptr() as usize == b0 + len * esz,
            "spare_bytes_mut: exactly the (capacity - len) x size bytes that follow the elements (inline backend)");
    }
    {
        let mut t = v.downcast_mut::<T>().unwrap();
        kani::assert(t.as_ptr() as usize == b0 && t.as_slice().len() == len, "typed views alias the same elements (inline backend)");
        let sp = t.spare_capacity_mut();
        kani::assert(sp.len() == CAP - len && sp.as_ptr() as usize == b0 + len * esz, "spare_capacity_mut: the capacity - len slots after the elements (inline backend)");
    }
    let i: usize = kani::any();
    kani::assume(i < len || len == 0);
    if len > 0 {
        {
            let e = v.at(i);
            kani::assert(e.size() == esz && e.as_bytes().len() == esz && e.as_bytes_ptr() as usize == b0 + i * esz,
                "element reference: true size and exactly the element's bytes (inline backend)");
        }
        {
            let mut e = v.at_mut(i);
            kani::assert(e.size() == esz && e.as_bytes_mut().len() == esz, "mutable element reference: true size (inline backend)");
        }
        {
            let h = v.pop().unwrap();
            kani::assert(h.size() == esz && h.as_bytes().len() == esz && h.as_bytes_ptr() as usize == b0 + (len - 1) * esz,
                "removal handle: true size and exactly the element's bytes (inline backend)");
            core::mem::forget(h);
        }
    }
    kani::cover!(len == CAP && CAP > 1, "COV full");
    kani::cover!(len == 0, "COV empty");
    kani::cover!(true, "REACHED");
    core::mem::forget(v);
}

/// push beyond the capacity of a REAL inline backend instantiated with slack bytes: the call cannot return (the
/// backend refuses to grow - it must not quietly use the spare bytes), and the length is untouched
fn inline_overflow_h<M: crate::mem::MemBuilder + Default, T: Copy + kani::Arbitrary + 'static, const CAP: usize>() {
    let x: [T; CAP] = kani::any();
    let y: T = kani::any();
    let mut v: AnyVec<dyn None, M> = AnyVec::new::<T>();
    { let mut t = v.downcast_mut::<T>().unwrap(); let mut i = 0; while i < CAP { t.push(x[i]); i += 1; } }
    kani::assert(v.len() == CAP && v.capacity() == CAP, "inline backend: filled to the stated capacity");
    v.push(AnyValueWrapper::new(y));
    kani::cover!(true, "RETURNED");
}

include!("k1_views.inst.rs");

