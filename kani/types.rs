//! Element types used to instantiate the contract harnesses: the layout set of the properties
//! {size 0,1,2,3,8,12,16,24,160; alignment 1..64; with and without drop glue}.
use super::ghost;

#[derive(Clone, Copy)] pub struct Z0;
#[derive(Clone, Copy)] #[repr(C)] pub struct E1(pub [u8; 1]);
#[derive(Clone, Copy)] #[repr(C)] pub struct E2(pub u16);
#[derive(Clone, Copy)] #[repr(C)] pub struct E3(pub [u8; 3]);
#[derive(Clone, Copy)] #[repr(C)] pub struct E8(pub u64);
#[derive(Clone, Copy)] #[repr(C)] pub struct E12(pub [u32; 3]);
#[derive(Clone, Copy)] #[repr(C, align(16))] pub struct E16(pub [u8; 16]);
#[derive(Clone, Copy)] #[repr(C)] pub struct E24(pub [u64; 3]);
#[derive(Clone, Copy)] #[repr(C)] pub struct E160(pub [u64; 20]);
#[derive(Clone, Copy)] #[repr(C, align(32))] pub struct A32(pub [u8; 32]);
#[derive(Clone, Copy)] #[repr(C, align(64))] pub struct A64(pub [u8; 64]);
/// beyond what the inline backends support (their buffer is 64-aligned): must be refused, also when zero-sized
#[derive(Clone, Copy)] #[repr(C, align(128))] pub struct A128(pub [u8; 128]);
#[derive(Clone, Copy)] #[repr(align(128))] pub struct ZA128;

/// Element types with drop glue whose destructor *is* the destructor contract (recorder).
/// They never read `self`, so they can live in the never-dereferenced ghost arena.
#[repr(C)] pub struct D8(pub u64);
impl Drop for D8 {
    fn drop(&mut self) { unsafe { ghost::rec_drop(self as *mut D8 as *mut u8, 1) } }
}
#[repr(C)] pub struct D24(pub [u64; 3]);
impl Drop for D24 {
    fn drop(&mut self) { unsafe { ghost::rec_drop(self as *mut D24 as *mut u8, 1) } }
}
#[repr(C)] pub struct D3(pub [u8; 3]);
impl Drop for D3 {
    fn drop(&mut self) { unsafe { ghost::rec_drop(self as *mut D3 as *mut u8, 1) } }
}

pub fn mk_z0() -> Z0 { Z0 }
pub fn mk_e1() -> E1 { E1([0]) }
pub fn mk_e2() -> E2 { E2(0) }
pub fn mk_e3() -> E3 { E3([0; 3]) }
pub fn mk_e8() -> E8 { E8(0) }
pub fn mk_e12() -> E12 { E12([0; 3]) }
pub fn mk_e16() -> E16 { E16([0; 16]) }
pub fn mk_e24() -> E24 { E24([0; 3]) }
pub fn mk_e160() -> E160 { E160([0; 20]) }
pub fn mk_d3() -> D3 { D3([0; 3]) }
pub fn mk_d8() -> D8 { D8(0) }
pub fn mk_d24() -> D24 { D24([0; 3]) }
