//! K2: clear, vector drop, clone / clone_empty / clone_empty_in, capacity management
//! (C01, C03, C05, C06, C08, C10, C11).
use core::alloc::Layout;
use core::any::TypeId;
use core::mem::{size_of, align_of};
use crate::AnyVec;
use crate::traits::{Cloneable, None};
use super::ghost::*;
use super::post;
use super::types::*;
use super::util::*;

fn clear_h<T: 'static>(drop: bool, typed: bool) {
    ghost_init();
    let (len, cap) = sym_state();
    let mut v = unsafe { mk_vec::<dyn None, T>(0, len, cap, false, drop) };
    reg(&v, 0);
    let esz = size_of::<T>();
    let has_w = len > 0;
    let w = if has_w { witness_slot(TW, 0, len) } else { 0 };
    watch_uninit(0, len, cap);
    if typed { v.downcast_mut::<T>().unwrap().clear() } else { v.clear() }
    kani::assert(v.len() == post::clear_len(len), "clear: len' == 0");
    kani::assert(v.capacity() == cap && g().v[0].cap_changes == 0, "clear keeps the capacity");
    kani::assert(g().n_moves == 0 && g().in_count == 0 && g().out_count == 0 && g().n_clone_calls == 0, "clear moves and clones nothing");
    kani::assert(g().total_destroyed == if drop { len } else { 0 }, "clear destroys exactly the len elements");
    if drop && len > 0 {
        kani::assert(g().n_drop_calls == 1 && g().last_drop_at == base(0) && g().last_drop_n == len, "clear: one destructor run over slots 0..len");
    }
    if esz != 0 && has_w {
        let (n, p, a, d, o) = obs(TW, 0, 0, 0);
        let d = if !drop { 1 } else { d };
        kani::assert(post::fate_ok(post::clear_old_kind(len, w), 0, n, p, a, d, o), "clear: every element destroyed exactly once, none visible");
    }
    kani::cover!(len == cap && len > 1, "COV full vector");
    kani::cover!(true, "REACHED");
    core::mem::forget(v);
}

fn vecdrop_h<T: 'static>(drop: bool) {
    ghost_init();
    let (len, cap) = sym_state();
    let mut v = unsafe { mk_vec::<dyn None, T>(0, len, cap, false, drop) };
    reg(&v, 0);
    let esz = size_of::<T>();
    let has_w = len > 0;
    let w = if has_w { witness_slot(TW, 0, len) } else { 0 };
    watch_uninit(0, len, cap);
    // drop in place: the ghost reads the length through a pointer into `v`
    unsafe { core::ptr::drop_in_place(&mut v as *mut AnyVec<dyn None, GhostB>) };
    core::mem::forget(v);
    kani::assert(g().total_destroyed == if drop { len } else { 0 }, "vector drop destroys exactly the len elements");
    kani::assert(g().v[0].releases == 1, "vector drop releases the storage exactly once");
    kani::assert(g().v[0].destroyed_at_release == g().total_destroyed, "storage is released after the remaining elements are destroyed");
    kani::assert(g().n_moves == 0 && g().in_count == 0 && g().out_count == 0 && g().v[0].cap_changes == 0, "vector drop moves nothing, resizes nothing");
    if esz != 0 && has_w && drop {
        kani::assert(g().t[TW].destroyed == 1 && g().t[TW].out == 0, "vector drop: every element destroyed exactly once");
    }
    kani::cover!(len > 1, "COV several elements");
    kani::cover!(true, "REACHED");
}

/// `fixed`: the builder creates fixed-capacity memory of `tcap` elements (like Stack / StackN)
fn clone_h<T: 'static>(fixed: bool, drop: bool) {
    ghost_init();
    let (len, cap) = sym_state();
    let tcap = any_narrow();
    kani::assume(tcap <= CAPMAX);
    if fixed {
        kani::assume(len <= tcap); // the contents fit the target
    }
    g().next_build_cap = tcap;
    let v = unsafe { mk_vec::<dyn Cloneable, T>(0, len, cap, fixed, drop) };
    reg(&v, 0);
    let esz = size_of::<T>();
    let has_w = len > 0;
    let w = if has_w { witness_slot(TW, 0, len) } else { 0 };
    tok_init(TC, esz);
    watch_uninit(0, len, cap);

    let c = v.clone();

    kani::assert(v.len() == len && v.capacity() == cap && g().v[0].cap_changes == 0, "clone leaves the source's length and capacity alone");
    kani::assert(c.len() == post::clone_len(len) && c.len() <= c.capacity(), "clone: len' == len <= capacity'");
    kani::assert(g().v[1].builds == 1 && g().v[1].build_size == esz && g().v[1].build_align == align_of::<T>(),
        "clone requests storage exactly once, with the element type's layout");
    kani::assert(c.element_typeid() == TypeId::of::<T>() && c.element_layout() == Layout::new::<T>(), "clone has the same element type and layout");
    kani::assert(c.element_drop() == v.element_drop() && c.element_clone() == v.element_clone(), "clone has the same drop and clone functions");
    kani::assert(g().total_cloned == len && g().total_destroyed == 0 && g().n_moves == 0, "clone clones each element once, destroys and moves nothing");
    kani::assert(g().v[1].cap_changes == if post::clone_needs_expand(len, tcap) { 1 } else { 0 },
        "clone expands the target only when its capacity cannot hold the contents");
    if len > 0 {
        kani::assert(g().n_clone_calls == 1 && g().last_clone_src == base(0) && g().last_clone_dst == base(1) && g().last_clone_n == len,
            "clone: one clone run from the source's slots 0..len to the target's slots 0..len");
    }
    if esz != 0 && has_w {
        let (n, p, a, d, o) = obs(TW, 0, len, post::clone_src_pos(len, w));
        kani::assert(post::fate_ok(0, w, n, p, a, d, o) && g().t[TW].cloned == 1, "clone: source element w untouched, cloned exactly once");
        let (n, p, a, d, o) = obs(TC, 1, c.len(), post::clone_dst_pos(len, w));
        kani::assert(post::fate_ok(0, w, n, p, a, d, o), "clone: the clone of element w is element w of the new vector");
        kani::assert(tok_visible_in(TC, 0, len).0 == 0 && tok_visible_in(TW, 1, c.len()).0 == 0, "clone: separately owned storage (nothing shared)");
    }
    kani::cover!(len > 1 && len == cap, "COV full source");
    kani::cover!(len == 0, "COV empty source");
    kani::cover!(true, "REACHED");
    core::mem::forget(v);
    core::mem::forget(c);
}

fn clone_empty_h<T: 'static>(other_builder: bool) {
    ghost_init();
    let (len, cap) = sym_state();
    let tcap = any_narrow();
    kani::assume(tcap <= CAPMAX);
    g().next_build_cap = tcap;
    let v = unsafe { mk_vec::<dyn Cloneable, T>(0, len, cap, false, true) };
    reg(&v, 0);
    let esz = size_of::<T>();
    let c = if other_builder { v.clone_empty_in(GhostB { k: 1, fixed: true, build_cap: tcap }) } else { v.clone_empty() };
    kani::assert(c.len() == 0 && c.capacity() == tcap, "clone_empty: new vector is empty, capacity is the builder's");
    kani::assert(v.len() == len && v.capacity() == cap, "clone_empty leaves the source alone");
    kani::assert(g().v[1].builds == 1 && g().v[1].build_size == esz && g().v[1].build_align == align_of::<T>(),
        "clone_empty requests storage exactly once, with the element type's layout");
    kani::assert(c.element_typeid() == TypeId::of::<T>() && c.element_layout() == Layout::new::<T>(), "clone_empty: same element type and layout");
    kani::assert(c.element_drop() == v.element_drop() && c.element_clone() == v.element_clone(), "clone_empty: same drop and clone functions");
    kani::assert(g().total_cloned == 0 && g().total_destroyed == 0 && g().n_moves == 0 && g().v[1].cap_changes == 0, "clone_empty touches no element");
    kani::cover!(true, "REACHED");
    core::mem::forget(v);
    core::mem::forget(c);
}

/// reserve / reserve_exact with `len + n` representable and inside the harness domain
fn reserve_h<T: 'static>(exact: bool) { reserve_ht::<T>(exact, false) }
/// `typed`: through the typed view (`AnyVecTyped::{reserve, reserve_exact}`)
fn reserve_ht<T: 'static>(exact: bool, typed: bool) {
    ghost_init();
    let (len, cap) = sym_state();
    let mut v = unsafe { mk_vec::<dyn None, T>(0, len, cap, false, true) };
    reg(&v, 0);
    let esz = size_of::<T>();
    let has_w = len > 0;
    let w = if has_w { witness_slot(TW, 0, len) } else { 0 };
    let n = any_narrow();
    kani::assume(n <= CAPMAX);
    if typed {
        let mut t = v.downcast_mut::<T>().unwrap();
        if exact { t.reserve_exact(n) } else { t.reserve(n) }
        kani::assert(t.len() == len, "typed view reports the same length");
    } else if exact { v.reserve_exact(n) } else { v.reserve(n) }
    let cap2 = v.capacity();
    if typed { kani::assert(v.downcast_ref::<T>().unwrap().capacity() == cap2, "typed view reports the vector's capacity"); }
    kani::assert(post::reserve_ok(len, cap, n, cap2), "reserve: capacity' >= len + n, unchanged when that already held");
    kani::assert(g().v[0].cap_changes == if post::reserve_must_grow(len, cap, n) { 1 } else { 0 }, "reserve: reallocates exactly when capacity < len + n");
    if exact && post::reserve_must_grow(len, cap, n) {
        kani::assert(g().v[0].last_resize == len + n, "reserve_exact asks the backend for exactly len + n");
    }
    kani::assert(v.len() == len, "reserve keeps the length");
    kani::assert(g().n_moves == 0 && g().total_destroyed == 0 && g().in_count == 0 && g().out_count == 0 && g().n_clone_calls == 0, "reserve touches no element");
    if esz != 0 && has_w {
        let (nn, p, a, d, o) = obs(TW, 0, len, w);
        kani::assert(post::fate_ok(0, w, nn, p, a, d, o), "reserve: elements unchanged");
    }
    kani::cover!(len + n > cap, "COV grows");
    kani::cover!(len + n <= cap && n > 0, "COV already sufficient");
    kani::cover!(true, "REACHED");
    core::mem::forget(v);
}

fn shrink_h<T: 'static>(fit: bool) { shrink_ht::<T>(fit, false) }
/// `typed`: through the typed view (`AnyVecTyped::{shrink_to, shrink_to_fit}`)
fn shrink_ht<T: 'static>(fit: bool, typed: bool) {
    ghost_init();
    let (len, cap) = sym_state();
    let mut v = unsafe { mk_vec::<dyn None, T>(0, len, cap, false, true) };
    reg(&v, 0);
    let esz = size_of::<T>();
    let has_w = len > 0;
    let w = if has_w { witness_slot(TW, 0, len) } else { 0 };
    let m: usize = if fit { 0 } else { kani::any() };
    if typed {
        let mut t = v.downcast_mut::<T>().unwrap();
        if fit { t.shrink_to_fit() } else { t.shrink_to(m) }
    } else if fit { v.shrink_to_fit() } else { v.shrink_to(m) }
    let cap2 = v.capacity();
    kani::assert(cap2 <= cap, "shrink never increases capacity");
    kani::assert(cap2 >= len, "shrink never goes below len");
    kani::assert(cap2 == post::shrink_cap(len, cap, m), "shrink on an exactly-resizing backend ends at min(capacity, max(len, m))");
    kani::assert(g().v[0].cap_changes <= 1, "shrink resizes at most once");
    kani::assert(v.len() == len, "shrink keeps the length");
    kani::assert(g().n_moves == 0 && g().total_destroyed == 0 && g().in_count == 0 && g().out_count == 0 && g().n_clone_calls == 0, "shrink touches no element");
    if esz != 0 && has_w {
        let (nn, p, a, d, o) = obs(TW, 0, len, w);
        kani::assert(post::fate_ok(0, w, nn, p, a, d, o), "shrink: elements unchanged");
    }
    kani::cover!(m > cap, "COV bound above capacity");
    kani::cover!(m < len && len < cap, "COV shrinks to len");
    kani::cover!(true, "REACHED");
    core::mem::forget(v);
}

fn with_capacity_h<T: 'static>() {
    ghost_init();
    let n = any_narrow();
    kani::assume(n <= CAPMAX);
    let v: AnyVec<dyn None, GhostB> = AnyVec::with_capacity_in::<T>(n, GhostB { k: 0, fixed: false, build_cap: 0 });
    kani::assert(v.capacity() >= n && v.len() == 0, "with_capacity(n): capacity >= n, empty");
    kani::assert(g().v[0].builds == 1 && g().v[0].build_size == size_of::<T>() && g().v[0].build_align == align_of::<T>(),
        "with_capacity requests storage once, with the element type's layout");
    kani::assert(v.element_typeid() == TypeId::of::<T>() && v.element_layout() == Layout::new::<T>(), "with_capacity: reports the real element type and layout");
    kani::cover!(true, "REACHED");
    core::mem::forget(v);
}

fn new_in_h<T: 'static>() {
    ghost_init();
    let bc = any_narrow();
    kani::assume(bc <= CAPMAX);
    let v: AnyVec<dyn None, GhostB> = AnyVec::new_in::<T>(GhostB { k: 0, fixed: true, build_cap: bc });
    kani::assert(v.capacity() == bc && v.len() == 0 && v.is_empty(), "new_in: empty vector with the builder's capacity");
    kani::assert(g().v[0].builds == 1 && g().v[0].build_size == size_of::<T>() && g().v[0].build_align == align_of::<T>(),
        "new_in requests storage once, with the element type's layout");
    kani::assert(v.element_typeid() == TypeId::of::<T>() && v.element_layout() == Layout::new::<T>(), "new_in: reports the real element type and layout");
    kani::assert(v.element_drop().is_some() == core::mem::needs_drop::<T>(), "new_in: a destructor is recorded exactly for types with drop glue");
    kani::cover!(true, "REACHED");
    core::mem::forget(v);
}

/// reserve / reserve_exact with `len + n` not representable: the call cannot return (and not because an
/// overflow check happens to be compiled in)
fn reserve_overflow_h<T: 'static>(exact: bool) {
    ghost_init();
    let (len, cap) = sym_state();
    kani::assume(len >= 1);
    let mut v = unsafe { mk_vec::<dyn None, T>(0, len, cap, false, true) };
    reg(&v, 0);
    let n: usize = kani::any();
    kani::assume(n > usize::MAX - len);
    g().armed = true;
    if exact { v.reserve_exact(n) } else { v.reserve(n) }
    kani::cover!(true, "RETURNED");
}

include!("k2_misc.inst.rs");
