//! K1: element handles and iterators: get/at/get_mut/at_mut, Iter::{next,next_back,size_hint,len,clone},
//! ops::Iter forwarding (drain/splice), handle reports (C13, C14, C04, C03).
use core::any::TypeId;
use core::mem::size_of;
use core::ptr::NonNull;
use crate::AnyVec;
use crate::any_value::{AnyValue, AnyValueMut, AnyValueSizeless, AnyValueSizelessMut, AnyValueTypeless, AnyValueTypelessMut};
use crate::any_vec_ptr::AnyVecRawPtr;
use crate::ops::Iterable;
use crate::traits::None;
use super::ghost::*;
use super::types::*;
use super::util::*;

fn check_elem<V: AnyValue>(h: &V, esz: usize, at: usize, tid: TypeId) {
    kani::assert(off(h.as_bytes_ptr()) == Some(at), "handle addresses exactly base + size * i");
    kani::assert(h.size() == esz, "handle reports the element size");
    kani::assert(h.value_typeid() == tid, "handle reports the element type");
    let b = h.as_bytes();
    kani::assert(b.len() == esz && off(b.as_ptr()) == Some(at), "handle's byte view is exactly the element's bytes");
}

fn check_elem_mut<V: AnyValueMut>(h: &mut V, esz: usize, at: usize) {
    kani::assert(off(h.as_bytes_mut_ptr() as *const u8) == Some(at), "mutable handle addresses the same element");
    let bm = h.as_bytes_mut();
    kani::assert(bm.len() == esz && off(bm.as_ptr()) == Some(at), "mutable byte view is exactly the element's bytes");
}

/// get / get_mut over every usize index
fn get_h<T: 'static>() {
    ghost_init();
    let (len, cap) = sym_state();
    let mut v = unsafe { mk_vec::<dyn None, T>(0, len, cap, false, true) };
    reg(&v, 0);
    let esz = size_of::<T>();
    let i: usize = kani::any();
    let tid = TypeId::of::<T>();
    kani::assert(v.len() == len && v.is_empty() == (len == 0) && v.capacity() == cap, "len / is_empty / capacity report the state");
    {
        let r = v.get(i);
        kani::assert(r.is_some() == (i < len), "get(i) is Some exactly when i < len");
        if let Some(e) = r {
            check_elem(&*e, esz, base(0) + i * esz, tid);
            let e2 = e.clone();
            kani::assert(off(e2.as_bytes_ptr()) == off(e.as_bytes_ptr()), "a cloned element reference refers to the same element");
        }
    }
    {
        let r = v.get_mut(i);
        kani::assert(r.is_some() == (i < len), "get_mut(i) is Some exactly when i < len");
        if let Some(mut e) = r {
            check_elem(&*e, esz, base(0) + i * esz, tid);
            kani::assert(off(e.as_bytes_mut_ptr() as *const u8) == Some(base(0) + i * esz), "mutable handle addresses the same element");
            let bm = e.as_bytes_mut();
            kani::assert(bm.len() == esz && off(bm.as_ptr()) == Some(base(0) + i * esz), "mutable byte view is exactly the element's bytes");
        }
    }
    if i < len {
        let e = v.at(i);
        check_elem(&*e, esz, base(0) + i * esz, tid);
        drop(e);
        let mut e = v.at_mut(i);
        check_elem(&*e, esz, base(0) + i * esz, tid);
        check_elem_mut(&mut *e, esz, base(0) + i * esz);
    }
    kani::assert(g().total_destroyed == 0 && g().n_moves == 0 && g().n_clone_calls == 0, "element references own nothing: no destructor, move or clone");
    kani::cover!(i == len && len > 0, "COV index == len");
    kani::cover!(len > 1 && i == len - 1, "COV last index");
    kani::cover!(true, "REACHED");
    core::mem::forget(v);
}

/// typed get / get_mut / at / as_slice on the typed view
fn get_typed_h<T: 'static>() {
    ghost_init();
    let (len, cap) = sym_state();
    let mut v = unsafe { mk_vec::<dyn None, T>(0, len, cap, false, false) };
    reg(&v, 0);
    let esz = size_of::<T>();
    let i: usize = kani::any();
    {
        let t = v.downcast_ref::<T>().unwrap();
        kani::assert(t.len() == len && t.capacity() == cap && t.is_empty() == (len == 0), "typed view reports len / capacity");
        let r = t.get(i);
        kani::assert(r.is_some() == (i < len), "typed get(i) is Some exactly when i < len");
        if let Some(e) = r {
            kani::assert(off(e as *const T as *const u8) == Some(base(0) + i * esz), "typed get(i) addresses exactly base + size * i");
        }
        if i < len {
            kani::assert(off(t.at(i) as *const T as *const u8) == Some(base(0) + i * esz), "typed at(i) addresses exactly base + size * i");
        }
    }
    {
        let mut t = v.downcast_mut::<T>().unwrap();
        let r = t.get_mut(i);
        kani::assert(r.is_some() == (i < len), "typed get_mut(i) is Some exactly when i < len");
        if let Some(e) = r {
            kani::assert(off(e as *mut T as *const u8) == Some(base(0) + i * esz), "typed get_mut(i) addresses exactly base + size * i");
        }
    }
    kani::cover!(i == len && len > 0, "COV index == len");
    kani::cover!(true, "REACHED");
    core::mem::forget(v);
}

/// at / at_mut out of range: expected panic, nothing touched
fn at_oob_h<T: 'static>(mutable: bool, typed: bool) {
    ghost_init();
    let (len, cap) = sym_state();
    let mut v = unsafe { mk_vec::<dyn None, T>(0, len, cap, false, true) };
    reg(&v, 0);
    let i: usize = kani::any();
    kani::assume(i >= len);
    g().armed = true;
    if typed {
        if mutable { let mut t = v.downcast_mut::<T>().unwrap(); let _ = t.at_mut(i); } else { let t = v.downcast_ref::<T>().unwrap(); let _ = t.at(i); }
    } else if mutable { let _ = v.at_mut(i); } else { let _ = v.at(i); }
    kani::cover!(true, "RETURNED");
}

/// the shared iterator code: from every cursor state index <= end <= len
fn iter_h<T: 'static>(mutable: bool) {
    ghost_init();
    let (len, cap) = sym_state();
    let mut v = unsafe { mk_vec::<dyn None, T>(0, len, cap, false, true) };
    reg(&v, 0);
    let esz = size_of::<T>();
    let tid = TypeId::of::<T>();
    let i = any_narrow();
    let e = any_narrow();
    kani::assume(i <= e && e <= len);
    let back: bool = kani::any();
    macro_rules! body { ($it:expr) => {{
        let mut it = $it;
        kani::assert(it.index == 0 && it.end == len, "a fresh iterator covers 0..len");
        it.index = i;
        it.end = e;
        kani::assert(it.size_hint() == (e - i, Some(e - i)) && it.len() == e - i, "size_hint() == (len(), Some(len())) == items still to come");
        let c = it.clone();
        kani::assert(c.index == i && c.end == e, "clone copies both cursors");
        {
            // the other way to clone: into an existing iterator in a different state
            let mut c2 = it.clone();
            c2.index = 0;
            c2.end = len;
            c2.clone_from(&it);
            kani::assert(c2.index == i && c2.end == e, "clone_from copies both cursors");
        }
        let r = if back { it.next_back() } else { it.next() };
        kani::assert(c.index == i && c.end == e, "advancing the original leaves the clone alone");
        kani::assert(r.is_some() == (i < e), "next/next_back is None exactly when the cursors meet");
        if i == e {
            kani::assert(it.index == i && it.end == e, "an exhausted iterator stays exhausted (fused), cursors unchanged");
        } else if back {
            kani::assert(it.index == i && it.end == e - 1, "next_back lowers the back cursor by one");
            let item = r.unwrap();
            check_elem(&*item, esz, base(0) + (e - 1) * esz, tid);
        } else {
            kani::assert(it.index == i + 1 && it.end == e, "next raises the front cursor by one");
            let item = r.unwrap();
            check_elem(&*item, esz, base(0) + i * esz, tid);
        }
        kani::assert(it.size_hint().0 == it.end - it.index, "size_hint follows the cursors");
    }}}
    if mutable { body!(v.iter_mut()) } else { body!(v.iter()) }
    if mutable && i < e {
        // the mutable view of an `iter_mut` item is that same element
        let mut it = v.iter_mut();
        it.index = i;
        it.end = e;
        let r = if back { it.next_back() } else { it.next() };
        if let Some(mut item) = r {
            let pos = if back { e - 1 } else { i };
            check_elem_mut(&mut *item, esz, base(0) + pos * esz);
        }
    }
    kani::assert(g().total_destroyed == 0 && g().n_moves == 0 && g().n_clone_calls == 0, "iterating by reference owns nothing");
    kani::cover!(i < e && e < len && i > 0, "COV inner sub-range");
    kani::cover!(i == e, "COV exhausted");
    kani::cover!(true, "REACHED");
    core::mem::forget(v);
}

/// the range iterators forward to the same cursor code and yield *owning* element handles
fn range_iter_h<T: 'static>(typed: bool, splice: bool) {
    ghost_init();
    let (len, cap) = sym_state();
    let mut v = unsafe { mk_vec::<dyn None, T>(0, len, cap, false, true) };
    reg(&v, 0);
    let esz = size_of::<T>();
    let tid = TypeId::of::<T>();
    let start = any_narrow();
    let end = any_narrow();
    let i = any_narrow();
    let e = any_narrow();
    kani::assume(start <= i && i <= e && e <= end && end <= len);
    let w = any_narrow();
    kani::assume(w < len || len == 0);
    if len > 0 { tok_init(TW, esz); tok_place(TW, base(0) + w * esz); }
    let back: bool = kani::any();
    macro_rules! body { ($d:expr) => {{
        let mut d = $d;
        { let it = d.0.iter_mut(); it.index = i; it.end = e; }
        kani::assert(d.size_hint() == (e - i, Some(e - i)) && d.len() == e - i, "size_hint() == (len(), Some(len())) == items still to come");
        let r = if back { d.next_back() } else { d.next() };
        kani::assert(r.is_some() == (i < e), "next/next_back is None exactly when the cursors meet");
        let (ni, ne) = { let it = d.0.iter(); (it.index, it.end) };
        if i == e {
            kani::assert(ni == i && ne == e, "an exhausted iterator stays exhausted (fused)");
        } else {
            let pos = if back { e - 1 } else { i };
            kani::assert(if back { ni == i && ne == e - 1 } else { ni == i + 1 && ne == e }, "exactly one cursor moves by one");
            let mut item = r.unwrap();
            check_elem(&item, esz, base(0) + pos * esz, tid);
            check_elem_mut(&mut item, esz, base(0) + pos * esz);
            kani::assert(g().total_destroyed == 0, "yielding destroys nothing");
            drop(item);
            kani::assert(g().total_destroyed == 1 && g().last_drop_at == base(0) + pos * esz && g().last_drop_n == 1,
                "a dropped yielded element is destroyed exactly once, it and no other");
            if len > 0 && esz != 0 {
                kani::assert(g().t[TW].destroyed == if w == pos { 1 } else { 0 }, "only the yielded element is destroyed");
            }
        }
        core::mem::forget(d);
    }}}
    if !typed && !splice {
        body!(v.drain(start..end))
    } else if !typed {
        body!(v.splice(start..end, super::k2_range::RawRepl { left: 0, report: 0, p: core::ptr::null_mut(), esz, tid }))
    } else {
        let p = AnyVecRawPtr::<T, GhostB>::from(NonNull::from(&mut v.raw));
        body!(crate::ops::Iter(crate::ops::drain::Drain::new(p, start, end)))
    }
    kani::cover!(i < e && start < i && e < end, "COV inner sub-range");
    kani::cover!(true, "REACHED");
    core::mem::forget(v);
}

/// `nth` / `nth_back` of the range iterators (every skipping adapter - skip, step_by, rev().skip() - goes through
/// them): the skipped elements were removed from the vector, so they are destroyed, each once (C03); the
/// n-th remaining element is the one yielded (C02, C14).  n <= 2: core's default `nth` loops over `next()`.
fn range_nth_h<T: 'static>(splice: bool, back: bool) {
    ghost_init();
    let (len, cap) = sym_state();
    let mut v = unsafe { mk_vec::<dyn None, T>(0, len, cap, false, true) };
    reg(&v, 0);
    let esz = size_of::<T>();
    let tid = TypeId::of::<T>();
    let start = any_narrow();
    let end = any_narrow();
    kani::assume(start <= end && end <= len);
    let n: usize = kani::any();
    kani::assume(n <= 2);
    let w = any_narrow();
    kani::assume(w < len || len == 0);
    if len > 0 { tok_init(TW, esz); tok_place(TW, base(0) + w * esz); }
    let rem = end - start;
    let skipped = if n < rem { n } else { rem };
    macro_rules! body { ($d:expr) => {{
        let mut d = $d;
        let r = if back { d.nth_back(n) } else { d.nth(n) };
        kani::assert(r.is_some() == (n < rem), "nth(n) yields an element exactly when more than n remain");
        kani::assert(g().total_destroyed == skipped, "elements skipped by nth / nth_back of a range iterator are destroyed, each exactly once");
        if let Some(item) = &r {
            let pos = if back { end - 1 - n } else { start + n };
            check_elem(item, esz, base(0) + pos * esz, tid);
        }
        let taken = if n < rem { n + 1 } else { rem };
        let (ni, ne) = { let it = d.0.iter(); (it.index, it.end) };
        kani::assert(if back { ni == start && ne == end - taken } else { ni == start + taken && ne == end }, "nth(n) advances its cursor by min(n + 1, remaining)");
        if len > 0 && esz != 0 {
            let in_skipped = if back { end - skipped <= w && w < end } else { start <= w && w < start + skipped };
            kani::assert(g().t[TW].destroyed == if in_skipped { 1 } else { 0 }, "exactly the skipped elements are destroyed");
        }
        core::mem::forget(r);
        core::mem::forget(d);
    }}}
    if !splice {
        body!(v.drain(start..end))
    } else {
        body!(v.splice(start..end, super::k2_range::RawRepl { left: 0, report: 0, p: core::ptr::null_mut(), esz, tid }))
    }
    kani::cover!(n == 2 && rem > 3, "COV two skipped, more left");
    kani::cover!(n >= rem && rem > 0, "COV skipping past the end");
    kani::cover!(true, "REACHED");
    core::mem::forget(v);
}

/// Provided `Iterator` methods of the reference iterators agree with their `next()`-based definitions (they
/// are core code today; an "optimised" override added to the library would be new code outside the
/// next / next_back contracts).  Bounded: at most 2 items remain (the provided methods loop over `next()`).
fn iter_provided_h<T: 'static>(mutable: bool) {
    ghost_init();
    let (len, cap) = sym_state();
    let mut v = unsafe { mk_vec::<dyn None, T>(0, len, cap, false, true) };
    reg(&v, 0);
    let esz = size_of::<T>();
    let tid = TypeId::of::<T>();
    let i = any_narrow();
    let e = any_narrow();
    kani::assume(i <= e && e <= len && e - i <= 2);
    let rem = e - i;
    let n: usize = kani::any();
    kani::assume(n <= 2);
    let which: u8 = kani::any();
    kani::assume(which < 6);
    macro_rules! body { ($it:expr) => {{
        let mut it = $it;
        it.index = i;
        it.end = e;
        if which == 0 {
            kani::assert(it.count() == rem, "count() == items still to come");
        } else if which == 1 {
            let r = it.last();
            kani::assert(r.is_some() == (rem > 0), "last() is None exactly for an exhausted iterator");
            if let Some(item) = r { check_elem(&*item, esz, base(0) + (e - 1) * esz, tid); }
        } else if which == 2 {
            let r = it.nth(n);
            kani::assert(r.is_some() == (n < rem), "nth(n) yields an element exactly when more than n remain");
            if let Some(item) = r { check_elem(&*item, esz, base(0) + (i + n) * esz, tid); }
            kani::assert(it.len() == if n < rem { rem - n - 1 } else { 0 }, "nth(n) consumes min(n + 1, remaining) items");
        } else if which == 3 {
            let r = it.nth_back(n);
            kani::assert(r.is_some() == (n < rem), "nth_back(n) yields an element exactly when more than n remain");
            if let Some(item) = r { check_elem(&*item, esz, base(0) + (e - 1 - n) * esz, tid); }
            kani::assert(it.len() == if n < rem { rem - n - 1 } else { 0 }, "nth_back(n) consumes min(n + 1, remaining) items");
        } else if which == 4 {
            let mut r = it.rev();
            let x = r.next();
            kani::assert(x.is_some() == (rem > 0), "rev().next() is next_back()");
            if let Some(item) = x { check_elem(&*item, esz, base(0) + (e - 1) * esz, tid); }
            kani::assert(r.len() == if rem > 0 { rem - 1 } else { 0 }, "rev() keeps the exact size");
        } else {
            let k = it.fold(0usize, |a, _| a + 1);
            kani::assert(k == rem, "fold visits exactly the items still to come");
        }
    }}}
    if mutable { body!(v.iter_mut()) } else { body!(v.iter()) }
    kani::assert(g().total_destroyed == 0 && g().n_moves == 0 && g().n_clone_calls == 0, "iterating by reference owns nothing");
    kani::cover!(rem == 2 && which == 3 && n == 1, "COV nth_back(1) of two");
    kani::cover!(true, "REACHED");
    core::mem::forget(v);
}

/// the remaining ways to obtain an iterator: `IntoIterator` for `&AnyVec` / `&mut AnyVec` and the typed views'
/// `iter` / `iter_mut` / `into_iter` (slice iterators over exactly the `len` elements)
fn into_iter_h<T: 'static>() {
    ghost_init();
    let (len, cap) = sym_state();
    let mut v = unsafe { mk_vec::<dyn None, T>(0, len, cap, false, true) };
    reg(&v, 0);
    {
        let it = (&v).into_iter();
        kani::assert(it.index == 0 && it.end == len && it.len() == len, "IntoIterator for &AnyVec covers 0..len");
    }
    {
        let it = (&mut v).into_iter();
        kani::assert(it.index == 0 && it.end == len && it.len() == len, "IntoIterator for &mut AnyVec covers 0..len");
    }
    {
        let t = v.downcast_ref::<T>().unwrap();
        let it = t.iter();
        kani::assert(it.len() == len && off(it.as_slice().as_ptr() as *const u8) == Some(base(0)), "typed iter(): the slice iterator over exactly the len elements");
        let it = t.into_iter();
        kani::assert(it.len() == len && off(it.as_slice().as_ptr() as *const u8) == Some(base(0)), "typed view into_iter(): the slice iterator over exactly the len elements");
    }
    {
        let mut t = v.downcast_mut::<T>().unwrap();
        let it = t.iter_mut();
        kani::assert(it.len() == len, "typed iter_mut(): exactly len items");
        let sl = it.into_slice();
        kani::assert(sl.len() == len && off(sl.as_ptr() as *const u8) == Some(base(0)), "typed iter_mut(): over exactly the len elements");
        let it = t.into_iter();
        kani::assert(it.len() == len, "typed view into_iter() (mutable): exactly len items");
        let sl = it.into_slice();
        kani::assert(sl.len() == len && off(sl.as_ptr() as *const u8) == Some(base(0)), "typed view into_iter() (mutable): over exactly the len elements");
    }
    kani::assert(g().total_destroyed == 0 && g().n_moves == 0 && g().n_clone_calls == 0, "creating iterators owns nothing");
    kani::cover!(len > 0 && len < cap, "COV partly filled");
    kani::cover!(true, "REACHED");
    core::mem::forget(v);
}

include!("k1_handles.inst.rs");
