//! K2: contracts of remove / swap_remove / pop (two-phase: handle creation, then consumption),
//! clear and vector drop (C01, C03, C05, C06, C07).
use core::any::TypeId;
use core::mem::{size_of, MaybeUninit};
use core::ptr::NonNull;
use crate::AnyVec;
use crate::any_value::{AnyValue, AnyValueMut, AnyValueSizeless, AnyValueSizelessMut, AnyValueTypeless, AnyValueTypelessMut, Unknown};
use crate::traits::None;
use super::ghost::*;
use super::post;
use super::types::*;
use super::util::*;

pub const OP_REMOVE: usize = 0;
pub const OP_SWAP_REMOVE: usize = 1;
pub const OP_POP: usize = 2;
pub const SINK_DROP: usize = 1;
pub const SINK_MOVE: usize = 2;
pub const SINK_FORGET: usize = 3;
pub const SINK_DOWNCAST: usize = 4;

fn check_handle<V: AnyValueMut>(h: &mut V, esz: usize, index: usize, tid: TypeId) {
    kani::assert(off(h.as_bytes_ptr()) == Some(base(0) + index * esz), "handle: addresses exactly the removed element");
    kani::assert(h.size() == esz, "handle: reports the element size");
    kani::assert(h.value_typeid() == tid, "handle: reports the element type");
    // C13: a mutation through the removal handle (before it is consumed) hits that element and no other
    kani::assert(off(h.as_bytes_mut_ptr() as *const u8) == Some(base(0) + index * esz), "handle: mutable access addresses exactly the removed element");
    let bm = h.as_bytes_mut();
    kani::assert(bm.len() == esz && off(bm.as_ptr()) == Some(base(0) + index * esz), "handle: the mutable byte view is exactly the removed element's bytes");
}

fn sink<V: AnyValue, T: 'static>(h: V, how: usize, out: *mut u8, esz: usize) {
    if how == SINK_DROP {
        drop(h);
    } else if how == SINK_MOVE {
        unsafe { h.move_into::<Unknown>(out, esz) };
    } else if how == SINK_FORGET {
        core::mem::forget(h);
    } else {
        let r = h.downcast::<T>();
        kani::assert(r.is_some(), "downcast to the real element type succeeds");
        core::mem::forget(r);
    }
}

/// erased removal (`AnyVec::{remove,swap_remove,pop}`) with every way of consuming the handle
fn remove_erased<T: 'static>(op: usize, how: usize, drop: bool) {
    ghost_init();
    let (len, cap) = sym_state();
    kani::assume(len >= 1);
    let mut v = unsafe { mk_vec::<dyn None, T>(0, len, cap, false, drop) };
    reg(&v, 0);
    let esz = size_of::<T>();
    let w = witness_slot(TW, 0, len);
    watch_uninit(0, len, cap);
    let index = if op == OP_POP { len - 1 } else { let i = any_narrow(); kani::assume(i < len); i };
    let mut ext = MaybeUninit::<T>::uninit();
    let out = ext.as_mut_ptr() as *mut u8;
    g().ext_dst_on = how == SINK_MOVE;
    g().ext_dst = out as *const u8;
    let tid = TypeId::of::<T>();

    // phase 1: the handle exists
    if op == OP_REMOVE {
        let mut h = v.remove(index);
        kani::assert(cur_len(0) == post::remove_len_during(len, index), "remove: len lowered to index while the handle lives");
        kani::assert(g().n_moves == 0 && g().total_destroyed == 0, "remove: creating the handle touches no element");
        check_handle(&mut h, esz, index, tid);
        sink::<_, T>(h, how, out, esz);
    } else if op == OP_SWAP_REMOVE {
        let mut h = v.swap_remove(index);
        kani::assert(cur_len(0) == post::remove_len_during(len, index), "swap_remove: len lowered to index while the handle lives");
        kani::assert(g().n_moves == 0 && g().total_destroyed == 0, "swap_remove: creating the handle touches no element");
        check_handle(&mut h, esz, index, tid);
        sink::<_, T>(h, how, out, esz);
    } else {
        let h = v.pop();
        kani::assert(h.is_some(), "pop: Some on a non-empty vector");
        let mut h = h.unwrap();
        kani::assert(cur_len(0) == post::pop_len_during(len), "pop: len lowered while the handle lives");
        kani::assert(g().n_moves == 0 && g().total_destroyed == 0, "pop: creating the handle touches no element");
        check_handle(&mut h, esz, index, tid);
        sink::<_, T>(h, how, out, esz);
    }

    // phase 2: the handle is gone
    let len2 = v.len();
    kani::assert(v.capacity() == cap && g().v[0].cap_changes == 0, "removal never changes capacity");
    kani::assert(g().in_count == 0 && g().n_clone_calls == 0, "removal writes no new value and clones nothing");
    if how == SINK_FORGET {
        // C07: only leaks
        kani::assert(len2 <= len && len2 <= cap, "forget: vector stays valid (len within bounds)");
        kani::assert(g().total_destroyed == 0 && g().out_count == 0, "forget: nothing destroyed, nothing moved");
        if esz != 0 {
            if w < index {
                let (n, p, a, d, o) = obs(TW, 0, len2, w);
                kani::assert(post::fate_ok(0, w, n, p, a, d, o), "forget: elements before the index are unchanged");
            } else {
                let (n, a, d, o) = obs_any(TW, 0, len2);
                kani::assert(post::fate_safe(n, a, d, o), "forget: nothing duplicated, destroyed twice or visible moved-out");
            }
        }
    } else {
        let fate = if how == SINK_DROP { 1 } else { 2 };
        kani::assert(len2 == post::remove_len(len), "removal: len' == len - 1");
        kani::assert(g().total_destroyed == if how == SINK_DROP && drop { 1 } else { 0 }, "removal: destroys exactly the dropped handle's value");
        kani::assert(g().out_count == if how == SINK_DROP || esz == 0 { 0 } else { 1 }, "removal: moves out exactly the consumed value");
        if esz != 0 {
            let (kind, pos) = if op == OP_REMOVE {
                (post::remove_old_kind(len, index, w, fate), if w == index { 0 } else { post::remove_old_pos(len, index, w) })
            } else if op == OP_SWAP_REMOVE {
                (post::swap_remove_old_kind(len, index, w, fate), if w == index { 0 } else { post::swap_remove_old_pos(len, index, w) })
            } else {
                (post::pop_old_kind(len, w, fate), post::pop_old_pos(len, w))
            };
            let (n, p, a, d, o) = obs(TW, 0, len2, pos);
            // a type without drop glue is "destroyed" without a destructor call
            let d = if kind == 1 && !drop { 1 } else { d };
            kani::assert(post::fate_ok(kind, pos, n, p, a, d, o), "removal: every old element has the fate Vec gives it");
        }
    }
    kani::cover!(index == 0 && len > 1, "COV remove first of several");
    kani::cover!(index == len - 1, "COV remove last");
    kani::cover!(true, "REACHED");
    core::mem::forget(v);
}

/// typed removal (`AnyVecTyped::{remove,swap_remove,pop}`): one call, the value is returned by value
fn remove_typed<T: 'static>(op: usize) {
    ghost_init();
    let (len, cap) = sym_state();
    kani::assume(len >= 1);
    let mut v = unsafe { mk_vec::<dyn None, T>(0, len, cap, false, false) };
    reg(&v, 0);
    let esz = size_of::<T>();
    let w = witness_slot(TW, 0, len);
    watch_uninit(0, len, cap);
    let index = if op == OP_POP { len - 1 } else { let i = any_narrow(); kani::assume(i < len); i };
    {
        let mut t = v.downcast_mut::<T>().unwrap();
        if op == OP_REMOVE { core::mem::forget(t.remove(index)); }
        else if op == OP_SWAP_REMOVE { core::mem::forget(t.swap_remove(index)); }
        else { let r = t.pop(); kani::assert(r.is_some(), "typed pop: Some on a non-empty vector"); core::mem::forget(r); }
    }
    let len2 = v.len();
    kani::assert(len2 == post::remove_len(len), "typed removal: len' == len - 1");
    kani::assert(v.capacity() == cap && g().v[0].cap_changes == 0, "typed removal never changes capacity");
    kani::assert(g().out_count == (if esz == 0 { 0 } else { 1 }) && g().total_destroyed == 0 && g().in_count == 0 && g().n_clone_calls == 0,
        "typed removal: exactly the removed value is moved out, nothing destroyed, written or cloned");
    kani::assert(g().out_last_src == base(0) + index * esz || esz == 0, "typed removal: the returned value is read from slot index");
    if esz != 0 {
        let (kind, pos) = if op == OP_REMOVE {
            (post::remove_old_kind(len, index, w, 2), if w == index { 0 } else { post::remove_old_pos(len, index, w) })
        } else if op == OP_SWAP_REMOVE {
            (post::swap_remove_old_kind(len, index, w, 2), if w == index { 0 } else { post::swap_remove_old_pos(len, index, w) })
        } else {
            (post::pop_old_kind(len, w, 2), post::pop_old_pos(len, w))
        };
        let (n, p, a, d, o) = obs(TW, 0, len2, pos);
        kani::assert(post::fate_ok(kind, pos, n, p, a, d, o), "typed removal: every old element has the fate Vec gives it");
    }
    kani::cover!(index == 0 && len > 1, "COV remove first of several");
    kani::cover!(true, "REACHED");
    core::mem::forget(v);
}

include!("k2_remove.inst.rs");
