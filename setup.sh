#!/bin/sh
# Offline setup: only checks that the pre-installed tools exist. Nothing is prebuilt.
set -e
command -v cargo >/dev/null
command -v cargo-kani >/dev/null || command -v kani >/dev/null
command -v verus >/dev/null
command -v python3 >/dev/null
echo "setup ok"
