use any_vec::AnyVec;
use any_vec::any_value::AnyValueWrapper;
#[test]
fn owning_element_swapped_out_of_element_mut() {
    let mut v1: AnyVec = AnyVec::new::<String>();
    v1.push(AnyValueWrapper::new(String::from("a-long-enough-string-to-be-on-heap-0")));
    let mut v2: AnyVec = AnyVec::new::<String>();
    v2.push(AnyValueWrapper::new(String::from("a-long-enough-string-to-be-on-heap-1")));
    {
        let mut d = v2.drain(..);
        let owned = d.next().unwrap();            // owning handle (destroys its element on drop)
        let mut em = v1.get_mut(0).unwrap();      // ElementMut: DerefMut<Target = Element>
        let stolen = core::mem::replace(&mut *em, owned);
        drop(stolen);                             // destroys v1[0], which v1 still shows
    }
    assert_eq!(v1.len(), 1);
    drop(v1);                                     // destroys v1[0] again
}
