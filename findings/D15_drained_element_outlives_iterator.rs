use any_vec::AnyVec;
use any_vec::any_value::AnyValue;
#[test]
fn drained_element_outlives_drain() {
    let mut v: AnyVec = AnyVec::new::<String>();
    v.push(any_vec::any_value::AnyValueWrapper::new(String::from("a-long-enough-string-to-be-on-heap-0")));
    v.push(any_vec::any_value::AnyValueWrapper::new(String::from("a-long-enough-string-to-be-on-heap-1")));
    let e = v.drain(0..1).next().unwrap();
    // drain is gone: tail moved to slot 0; `e` still points at slot 0
    let s: String = e.downcast::<String>().unwrap();
    assert_eq!(s, "a-long-enough-string-to-be-on-heap-0");
}
