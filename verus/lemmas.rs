// Lemmas over the contract predicates of contracts/post.rs (translated above into spec functions).
// They lift the per-witness post-conditions that Kani discharges on the real code to the
// Seq-level statements of the properties (refinement of std::vec::Vec), and per-operation contracts
// to histories / interleavings / push counts.  No library code appears here.

// ---- C01: insert / push / remove / swap_remove / pop / clear refine Vec --------------------------
pub proof fn lemma_insert_refines(old: Seq<int>, index: int, v: int, new: Seq<int>)
    requires
        0 <= index <= old.len(),
        new.len() == insert_len(old.len() as int),
        forall|w: int| 0 <= w < old.len() ==> insert_old_kind(old.len() as int, index, w) == 0
            && new[insert_old_pos(old.len() as int, index, w)] == old[w],
        new[insert_new_pos(old.len() as int, index)] == v,
    ensures new =~= old.insert(index, v),
{
    let len = old.len() as int;
    assert forall|j: int| 0 <= j < new.len() implies new[j] == old.insert(index, v)[j] by {
        if j < index { assert(insert_old_pos(len, index, j) == j); }
        else if j == index { }
        else { assert(insert_old_pos(len, index, j - 1) == j); }
    }
}

pub proof fn lemma_push_refines(old: Seq<int>, v: int, new: Seq<int>)
    requires
        new.len() == push_len(old.len() as int),
        forall|w: int| 0 <= w < old.len() ==> push_old_kind(old.len() as int, w) == 0 && new[push_old_pos(old.len() as int, w)] == old[w],
        new[push_new_pos(old.len() as int)] == v,
    ensures new =~= old.push(v),
{
}

pub proof fn lemma_remove_refines(old: Seq<int>, index: int, sink: int, new: Seq<int>)
    requires
        0 <= index < old.len(), sink == 1 || sink == 2,
        new.len() == remove_len(old.len() as int),
        forall|w: int| 0 <= w < old.len() && w != index ==> remove_old_kind(old.len() as int, index, w, sink) == 0
            && new[remove_old_pos(old.len() as int, index, w)] == old[w],
    ensures
        new =~= old.remove(index),
        remove_old_kind(old.len() as int, index, index, sink) == sink,   // the removed value is exactly old[index]
{
    let len = old.len() as int;
    assert forall|j: int| 0 <= j < new.len() implies new[j] == old.remove(index)[j] by {
        if j < index { assert(remove_old_pos(len, index, j) == j); }
        else { assert(remove_old_pos(len, index, j + 1) == j); }
    }
}

pub open spec fn vec_swap_remove(s: Seq<int>, index: int) -> Seq<int> {
    if index == s.len() - 1 { s.drop_last() } else { s.update(index, s.last()).drop_last() }
}
pub proof fn lemma_swap_remove_refines(old: Seq<int>, index: int, sink: int, new: Seq<int>)
    requires
        0 <= index < old.len(), sink == 1 || sink == 2,
        new.len() == remove_len(old.len() as int),
        forall|w: int| 0 <= w < old.len() && w != index ==> swap_remove_old_kind(old.len() as int, index, w, sink) == 0
            && new[swap_remove_old_pos(old.len() as int, index, w)] == old[w],
    ensures new =~= vec_swap_remove(old, index),
{
    let len = old.len() as int;
    assert forall|j: int| 0 <= j < new.len() implies new[j] == vec_swap_remove(old, index)[j] by {
        if j == index { assert(swap_remove_old_pos(len, index, len - 1) == index); }
        else { assert(swap_remove_old_pos(len, index, j) == j); }
    }
}

pub proof fn lemma_pop_refines(old: Seq<int>, sink: int, new: Seq<int>)
    requires
        old.len() > 0, new.len() == remove_len(old.len() as int),
        forall|w: int| 0 <= w < old.len() - 1 ==> pop_old_kind(old.len() as int, w, sink) == 0 && new[pop_old_pos(old.len() as int, w)] == old[w],
    ensures new =~= old.drop_last(), pop_old_kind(old.len() as int, old.len() - 1, sink) == sink,
{
}

// ---- C02: drain / splice refine Vec ---------------------------------------------------------------
pub proof fn lemma_drain_refines(old: Seq<int>, start: int, end: int, f: int, b: int, new: Seq<int>)
    requires
        0 <= start <= end <= old.len(), 0 <= f, 0 <= b, f + b <= end - start,
        new.len() == drain_len(old.len() as int, start, end),
        forall|w: int| 0 <= w < old.len() && drain_old_kind(old.len() as int, start, end, f, b, w) == 0
            ==> new[drain_old_pos(old.len() as int, start, end, w)] == old[w],
    ensures
        new =~= old.subrange(0, start) + old.subrange(end, old.len() as int),
        // every element of the range is either yielded (handed out) or destroyed, never kept
        forall|w: int| start <= w < end ==> drain_old_kind(old.len() as int, start, end, f, b, w) == 1 || drain_old_kind(old.len() as int, start, end, f, b, w) == 2,
        // yielded = the first f and the last b of the range; destroyed = the rest
        forall|w: int| start <= w < start + f ==> drain_old_kind(old.len() as int, start, end, f, b, w) == 2,
        forall|w: int| end - b <= w < end ==> drain_old_kind(old.len() as int, start, end, f, b, w) == 2,
        forall|w: int| start + f <= w < end - b ==> drain_old_kind(old.len() as int, start, end, f, b, w) == 1,
        forall|w: int| (0 <= w < start || end <= w < old.len()) ==> drain_old_kind(old.len() as int, start, end, f, b, w) == 0,
{
    let len = old.len() as int;
    let want = old.subrange(0, start) + old.subrange(end, len);
    assert forall|j: int| 0 <= j < new.len() implies new[j] == want[j] by {
        if j < start { assert(drain_old_kind(len, start, end, f, b, j) == 0); assert(drain_old_pos(len, start, end, j) == j); }
        else { let w = j + (end - start); assert(drain_old_kind(len, start, end, f, b, w) == 0); assert(drain_old_pos(len, start, end, w) == j); }
    }
}

pub proof fn lemma_splice_refines(old: Seq<int>, start: int, end: int, f: int, b: int, repl: Seq<int>, new: Seq<int>)
    requires
        0 <= start <= end <= old.len(), 0 <= f, 0 <= b, f + b <= end - start,
        new.len() == splice_len(old.len() as int, start, end, repl.len() as int),
        forall|w: int| 0 <= w < old.len() && splice_old_kind(old.len() as int, start, end, f, b, w) == 0
            ==> new[splice_old_pos(old.len() as int, start, end, repl.len() as int, w)] == old[w],
        forall|r: int| 0 <= r < repl.len() ==> new[splice_new_pos(start, r)] == repl[r],
    ensures new =~= old.subrange(0, start) + repl + old.subrange(end, old.len() as int),
{
    let len = old.len() as int;
    let k = repl.len() as int;
    let want = old.subrange(0, start) + repl + old.subrange(end, len);
    assert forall|j: int| 0 <= j < new.len() implies new[j] == want[j] by {
        if j < start { assert(splice_old_kind(len, start, end, f, b, j) == 0); assert(splice_old_pos(len, start, end, k, j) == j); }
        else if j < start + k { assert(splice_new_pos(start, j - start) == j); }
        else { let w = j - k + (end - start); assert(splice_old_kind(len, start, end, f, b, w) == 0); assert(splice_old_pos(len, start, end, k, w) == j); }
    }
}

/// the bounded Kani harnesses use k <= 3 replacement values; the contract itself is uniform in k:
/// a splice with k+1 replacements is the splice with k followed by one insert at start + k
pub proof fn lemma_splice_step(old: Seq<int>, start: int, end: int, repl: Seq<int>, x: int)
    requires 0 <= start <= end <= old.len(),
    ensures
        old.subrange(0, start) + repl.push(x) + old.subrange(end, old.len() as int)
            =~= (old.subrange(0, start) + repl + old.subrange(end, old.len() as int)).insert(start + repl.len(), x),
{
}

// ---- C03: ownership accounting ---------------------------------------------------------------------
/// `fate_ok` admits exactly one of: visible once / destroyed once / handed out once / leaked
pub proof fn lemma_fate_exclusive(kind: int, pos: int, vis: int, vpos: int, aligned: bool, destroyed: int, out: int)
    requires fate_ok(kind, pos, vis, vpos, aligned, destroyed, out), vis >= 0, destroyed >= 0, out >= 0, 0 <= kind <= 2,
    ensures vis + destroyed + out == 1,
{
}
/// two different old elements that stay in the vector never land on the same slot (insert / remove / drain / splice)
pub proof fn lemma_positions_injective(len: int, index: int, start: int, end: int, k: int, w1: int, w2: int)
    requires 0 <= w1 < w2 < len, 0 <= index <= len, 0 <= start <= end <= len, 0 <= k,
    ensures
        insert_old_pos(len, index, w1) != insert_old_pos(len, index, w2),
        insert_old_pos(len, index, w1) != insert_new_pos(len, index),
        (w1 != index && w2 != index && index < len) ==> remove_old_pos(len, index, w1) != remove_old_pos(len, index, w2),
        (w1 != index && w2 != index && index < len) ==> swap_remove_old_pos(len, index, w1) != swap_remove_old_pos(len, index, w2),
        ((w1 < start || w1 >= end) && (w2 < start || w2 >= end)) ==> drain_old_pos(len, start, end, w1) != drain_old_pos(len, start, end, w2),
        ((w1 < start || w1 >= end) && (w2 < start || w2 >= end)) ==> splice_old_pos(len, start, end, k, w1) != splice_old_pos(len, start, end, k, w2),
        forall|r: int| 0 <= r < k && (w1 < start || w1 >= end) ==> splice_old_pos(len, start, end, k, w1) != splice_new_pos(start, r),
{
}

// ---- histories: per-operation refinement from every invariant state gives refinement of every history
pub proof fn lemma_history_refines(imp: Seq<Seq<int>>, model: Seq<Seq<int>>, n: nat)
    requires
        imp.len() == model.len(), n < imp.len(),
        imp[0] == model[0],
        forall|i: int| 0 <= i < imp.len() - 1 && imp[i] == model[i] ==> #[trigger] imp[i + 1] == model[i + 1],
    ensures imp[n as int] == model[n as int],
    decreases n,
{
    if n > 0 {
        lemma_history_refines(imp, model, (n - 1) as nat);
        let i = (n - 1) as int;
        assert(imp[i] == model[i]);
        assert(imp[i + 1] == model[i + 1]);
    }
}

// ---- C14: every next/next_back interleaving --------------------------------------------------------
/// cursor after a choice string (true = next, false = next_back), by the K1 contracts of next/next_back
pub open spec fn run_front(i: int, e: int, c: Seq<bool>) -> int
    decreases c.len(),
{
    if c.len() == 0 { i } else {
        let (i0, e0) = (run_front(i, e, c.drop_last()), run_back(i, e, c.drop_last()));
        if i0 < e0 && c.last() { i0 + 1 } else { i0 }
    }
}
pub open spec fn run_back(i: int, e: int, c: Seq<bool>) -> int
    decreases c.len(),
{
    if c.len() == 0 { e } else {
        let (i0, e0) = (run_front(i, e, c.drop_last()), run_back(i, e, c.drop_last()));
        if i0 < e0 && !c.last() { e0 - 1 } else { e0 }
    }
}
/// position yielded by the last call of the string (-1 = None)
pub open spec fn run_yield(i: int, e: int, c: Seq<bool>) -> int
    recommends c.len() > 0,
{
    let (i0, e0) = (run_front(i, e, c.drop_last()), run_back(i, e, c.drop_last()));
    if i0 >= e0 { -1 } else if c.last() { i0 } else { e0 - 1 }
}
pub proof fn lemma_interleaving(i: int, e: int, c: Seq<bool>)
    requires i <= e,
    ensures
        i <= run_front(i, e, c) <= run_back(i, e, c) <= e,
        // size_hint == items still to come: every productive call consumes exactly one
        (run_back(i, e, c) - run_front(i, e, c)) + (run_front(i, e, c) - i) + (e - run_back(i, e, c)) == e - i,
        // exhausted stays exhausted (fused), long enough strings exhaust
        c.len() >= e - i ==> run_front(i, e, c) == run_back(i, e, c),
        (run_front(i, e, c) - i) + (e - run_back(i, e, c)) <= c.len(),
    decreases c.len(),
{
    if c.len() > 0 {
        lemma_interleaving(i, e, c.drop_last());
        lemma_progress(i, e, c.drop_last());
    }
}
/// while not exhausted every call is productive: consumed == number of calls
pub proof fn lemma_progress(i: int, e: int, c: Seq<bool>)
    requires i <= e,
    ensures
        run_front(i, e, c) < run_back(i, e, c) ==> (run_front(i, e, c) - i) + (e - run_back(i, e, c)) == c.len(),
        run_front(i, e, c) <= run_back(i, e, c),
    decreases c.len(),
{
    if c.len() > 0 { lemma_progress(i, e, c.drop_last()); }
}
/// front items ascend, back items descend, and no position is yielded twice: the k-th front item is
/// i + (number of earlier fronts), the k-th back item is e - 1 - (number of earlier backs), and fronts
/// stay strictly below backs
pub proof fn lemma_yield_order(i: int, e: int, c: Seq<bool>)
    requires i <= e, c.len() > 0, run_yield(i, e, c) >= 0,
    ensures
        c.last() ==> run_yield(i, e, c) == run_front(i, e, c.drop_last()),
        !c.last() ==> run_yield(i, e, c) == run_back(i, e, c.drop_last()) - 1,
        i <= run_yield(i, e, c) < e,
        // strictly inside the not-yet-yielded window, hence different from everything yielded before
        run_front(i, e, c.drop_last()) <= run_yield(i, e, c) < run_back(i, e, c.drop_last()),
{
    lemma_interleaving(i, e, c.drop_last());
}

// ---- C10: amortised growth ---------------------------------------------------------------------------
pub open spec fn pow2(n: nat) -> nat decreases n { if n == 0 { 1 } else { 2 * pow2((n - 1) as nat) } }
/// capacities along a run of growth events, each obeying the expand contract cap' >= max(2 cap, cap + 1)
pub proof fn lemma_growth(caps: Seq<int>, g: nat)
    requires
        caps.len() > g, caps[0] >= 0,
        forall|j: int| 0 <= j < caps.len() - 1 ==> #[trigger] caps[j + 1] >= 2 * caps[j] && caps[j + 1] >= caps[j] + 1,
    ensures g >= 1 ==> caps[g as int] >= pow2((g - 1) as nat),
    decreases g,
{
    if g == 1 {
        let z = 0int; assert(caps[z + 1] >= caps[z] + 1);
        assert(pow2(0) == 1);
    } else if g >= 2 {
        lemma_growth(caps, (g - 1) as nat);
        let j = (g - 1) as int;
        assert(caps[j + 1] >= 2 * caps[j]);
        assert(pow2((g - 1) as nat) == 2 * pow2((g - 2) as nat));
    }
}
/// a growth event happens only when len == capacity (reserve_one contract), so the g-th reallocation
/// (g >= 2) needs at least 2^(g-2) elements: reallocations are logarithmic in the number of pushes
pub proof fn lemma_amortised(caps: Seq<int>, g: nat, n: int)
    requires
        caps.len() > g, g >= 2, caps[0] >= 0,
        forall|j: int| 0 <= j < caps.len() - 1 ==> #[trigger] caps[j + 1] >= 2 * caps[j] && caps[j + 1] >= caps[j] + 1,
        n >= caps[(g - 1) as int],     // the g-th growth fired with len == caps[g-1] <= n pushes so far
    ensures n >= pow2((g - 2) as nat),
{
    lemma_growth(caps, (g - 1) as nat);
}

// ---- C12: values written into spare capacity become the new tail after set_len -------------------
pub proof fn lemma_spare_then_set_len(old: Seq<int>, vals: Seq<int>, new: Seq<int>)
    requires
        new.len() == old.len() + vals.len(),
        forall|w: int| 0 <= w < old.len() ==> new[w] == old[w],             // as_bytes prefix untouched
        forall|r: int| 0 <= r < vals.len() ==> new[old.len() + r] == vals[r], // spare slot r = slot len + r
    ensures new =~= old + vals,
{
}

// ---- arithmetic used by the harness observations -----------------------------------------------------
pub proof fn lemma_mul_mono(a: int, b: int, e: int)
    requires 0 <= a, 0 <= b, e > 0,
    ensures (a < b) == (a * e < b * e), (a == b) == (a * e == b * e),
{
    assert((a < b) == (a * e < b * e)) by (nonlinear_arith) requires e > 0;
    assert((a == b) == (a * e == b * e)) by (nonlinear_arith) requires e > 0;
}

// ---- vacuity guards: every lemma's precondition is satisfiable (instantiated on concrete values) ----
pub proof fn witness_insert() {
    let old = seq![10int, 11, 12];
    let new = seq![10int, 99, 11, 12];
    lemma_insert_refines(old, 1, 99, new);
    assert(new =~= old.insert(1, 99));
}
pub proof fn witness_remove() {
    let old = seq![10int, 11, 12];
    lemma_remove_refines(old, 1, 1, seq![10int, 12]);
    lemma_swap_remove_refines(old, 0, 2, seq![12int, 11]);
    lemma_pop_refines(old, 1, seq![10int, 11]);
}
pub proof fn witness_drain_splice() {
    let old = seq![10int, 11, 12, 13, 14];
    lemma_drain_refines(old, 1, 4, 1, 1, seq![10int, 14]);
    lemma_splice_refines(old, 1, 4, 1, 1, seq![7int, 8], seq![10int, 7, 8, 14]);
}
pub proof fn witness_interleaving() {
    let c = seq![true, false, true];
    lemma_interleaving(2, 5, c);
    assert(run_front(2, 5, c) == run_back(2, 5, c));
}
pub proof fn witness_growth() {
    let caps = seq![0int, 1, 2, 4, 8];
    lemma_growth(caps, 4);
    assert(pow2(3) == 8) by { assert(pow2(0) == 1); assert(pow2(1) == 2); assert(pow2(2) == 4); }
    lemma_amortised(caps, 4, 4);
}
