// Native replay driver: runs ONE operation scenario of the real any_vec code (public API, real
// Heap / Stack memory) next to std::vec::Vec and compares contents, length and destructor counts.
// Copied into `tests/` of a scratch copy of /repo by /verif/replay.py and run with the repository's
// own toolchain:  VP_SCN="fam=remove;op=0;sink=1;esz=8;len=3;cap=4;index=0" cargo test --test vp_replay
// VP_MODE=search enumerates all small scenarios of the family (len <= 5) instead.
#![allow(dead_code, unused_variables, unused_mut, unused_imports)]
use any_vec::any_value::*;
use any_vec::mem::{Heap, Stack};
use any_vec::traits::*;
use any_vec::AnyVec;
use std::any::TypeId;
use std::cell::RefCell;
use std::collections::HashMap;
use std::panic::{catch_unwind, AssertUnwindSafe};
use std::ptr::NonNull;

thread_local! {
    static DROPS: RefCell<HashMap<u32, u32>> = RefCell::new(HashMap::new());
    static CLONES: RefCell<HashMap<u32, u32>> = RefCell::new(HashMap::new());
    static ZDROPS: RefCell<u32> = RefCell::new(0);
    static PANIC_AT: RefCell<i64> = RefCell::new(-1);   // k-th user call-out panics
    static CALLS: RefCell<i64> = RefCell::new(0);
}
fn user_code() {
    let k = CALLS.with(|c| { let mut c = c.borrow_mut(); *c += 1; *c });
    if PANIC_AT.with(|p| *p.borrow()) == k { panic!("vp: injected user-code panic"); }
}

/// identity carrying element of N >= 1 bytes; id in the first min(N,4) bytes (little endian)
#[repr(C)]
struct El<const N: usize>([u8; N]);
impl<const N: usize> El<N> {
    fn new(id: u32) -> Self { let mut b = [0xA5u8; N]; let le = id.to_le_bytes(); for i in 0..N.min(4) { b[i] = le[i]; } El(b) }
    fn id(&self) -> u32 { let mut le = [0u8; 4]; for i in 0..N.min(4) { le[i] = self.0[i]; } u32::from_le_bytes(le) }
}
impl<const N: usize> Drop for El<N> {
    fn drop(&mut self) { let id = self.id(); DROPS.with(|d| *d.borrow_mut().entry(id).or_insert(0) += 1); user_code(); }
}
impl<const N: usize> Clone for El<N> {
    fn clone(&self) -> Self { user_code(); let id = self.id(); CLONES.with(|d| *d.borrow_mut().entry(id).or_insert(0) += 1); El::new(id + CLONE_OFF::<N>()) }
}
#[allow(non_snake_case)]
fn CLONE_OFF<const N: usize>() -> u32 { if N == 1 { 100 } else { 1000 } }

#[derive(Clone, Debug)]
struct Scn { m: HashMap<String, i64> }
impl Scn {
    fn parse(s: &str) -> Scn {
        let mut m = HashMap::new();
        for kv in s.split(';') { if let Some((k, v)) = kv.split_once('=') { m.insert(k.trim().to_string(), fam_code(v.trim())); } }
        Scn { m }
    }
    fn g(&self, k: &str) -> i64 { *self.m.get(k).unwrap_or(&0) }
    fn u(&self, k: &str) -> usize { self.g(k).max(0) as usize }
}
fn fam_code(v: &str) -> i64 {
    match v { "insert" => 1, "remove" => 2, "drain" => 3, "splice" => 4, "clear" => 5, "clone" => 6, "from_other" => 7, "lazy" => 8,
              "reserve" => 9, "shrink" => 10, "range" => 11, "mismatch" => 12, "iter" => 13, "views" => 14, "swap" => 15,
              "rawparts" => 16, "growth" => 17, "stack" => 18, "get" => 19, "lazyall" => 20, "heap" => 21, _ => v.parse().unwrap_or(0) }
}

type V<const N: usize> = AnyVec<dyn Cloneable, Heap>;

fn fill<const N: usize>(len: usize, cap: usize, base: u32) -> (V<N>, Vec<u32>) {
    let mut v: V<N> = AnyVec::with_capacity::<El<N>>(cap.max(len).min(1 << 21));
    let mut m = Vec::new();
    { let mut t = v.downcast_mut::<El<N>>().unwrap(); for i in 0..len { t.push(El::new(base + i as u32)); m.push(base + i as u32); } }
    (v, m)
}
fn ids<const N: usize>(v: &V<N>) -> Vec<u32> { v.downcast_ref::<El<N>>().unwrap().as_slice().iter().map(|e| e.id()).collect() }
fn mask<const N: usize>(x: u32) -> u32 { if N >= 4 { x } else { x & ((1u32 << (8 * N)) - 1) } }
fn maskv<const N: usize>(m: &[u32]) -> Vec<u32> { m.iter().map(|x| mask::<N>(*x)).collect() }

struct Fail(String);

/// runs one scenario; Err(description) when the real code disagrees with Vec
fn run<const N: usize>(s: &Scn) -> Result<(), String> {
    DROPS.with(|d| d.borrow_mut().clear());
    CLONES.with(|d| d.borrow_mut().clear());
    CALLS.with(|c| *c.borrow_mut() = 0);
    PANIC_AT.with(|p| *p.borrow_mut() = if s.m.contains_key("panic_at") { s.g("panic_at") } else { -1 });
    let (len, cap) = (s.u("len"), s.u("cap"));
    let (mut v, mut m) = fill::<N>(len, cap, 1);
    let mut expect_alive: Vec<u32> = vec![];      // ids owned by the caller after the op
    let mut leaked_ok = false;
    let new_id = 5000u32;
    let fam = s.g("fam");
    // out-of-range index: Vec panics and so must the real code, leaving the vector unchanged
    let oob = (fam == 1 && s.g("push") != 1 && s.u("index") > len) || (fam == 2 && s.g("op") != 2 && s.u("index") >= len);
    if oob {
        let before = ids::<N>(&v);
        let index = s.u("index");
        let r = catch_unwind(AssertUnwindSafe(|| {
            if fam == 1 { v.insert(index, AnyValueWrapper::new(El::<N>::new(new_id))) }
            else if s.g("op") == 0 { drop(v.remove(index)) } else { drop(v.swap_remove(index)) }
        }));
        if r.is_ok() { return Err(format!("index {} is out of range for len {} but the call returned (Vec panics)", index, len)); }
        if maskv::<N>(&ids::<N>(&v)) != maskv::<N>(&before) { return Err(format!("the out-of-range call changed the vector: {:?} -> {:?}", before, ids::<N>(&v))); }
        return Ok(());
    }
    let r = catch_unwind(AssertUnwindSafe(|| -> Result<(), String> {
        match fam {
            1 => { // insert / push; src 0 raw 1 wrapper 2 typed
                let index = if s.g("push") == 1 { len } else { s.u("index") };
                m.insert(index, new_id);
                match s.g("src") {
                    0 => { let e = El::<N>::new(new_id);
                           let raw = unsafe { AnyValueRaw::new(NonNull::from(&e).cast::<u8>(), N, TypeId::of::<El<N>>()) };
                           std::mem::forget(e);
                           if s.g("push") == 1 { v.push(raw) } else { v.insert(index, raw) } }
                    1 => { let w = AnyValueWrapper::new(El::<N>::new(new_id)); if s.g("push") == 1 { v.push(w) } else { v.insert(index, w) } }
                    _ => { let mut t = v.downcast_mut::<El<N>>().unwrap(); if s.g("push") == 1 { t.push(El::new(new_id)) } else { t.insert(index, El::new(new_id)) } }
                }
            }
            2 => { // remove(0) / swap_remove(1) / pop(2); sink 1 drop 2 move(downcast) 3 forget
                let index = if s.g("op") == 2 { len - 1 } else { s.u("index") };
                let id = match s.g("op") { 0 => m.remove(index), 1 => m.swap_remove(index), _ => m.pop().unwrap() };
                macro_rules! sink { ($h:expr) => {{ let h = $h; match s.g("sink") {
                    1 => drop(h),
                    3 => { std::mem::forget(h); }
                    _ => { let e: El<N> = h.downcast::<El<N>>().unwrap(); if mask::<N>(e.id()) != mask::<N>(id) { return Err(format!("removed value is {} not {}", e.id(), id)); } drop(e); }
                }}}}
                match s.g("op") { 0 => sink!(v.remove(index)), 1 => sink!(v.swap_remove(index)), _ => sink!(v.pop().unwrap()) }
                if s.g("sink") == 3 { leaked_ok = true; m.truncate(index); }
            }
            3 | 4 => { // drain / splice with f fronts, b backs taken; how 1 drop 3 forget
                let (start, end, f, b, k) = (s.u("start"), s.u("end"), s.u("f"), s.u("b"), s.u("k"));
                let report = if s.m.contains_key("report") { s.u("report") } else { k };
                let repl: Vec<u32> = (0..k as u32).map(|i| new_id + i).collect();
                let mut yielded = vec![];
                if fam == 3 {
                    let mut d = v.drain(start..end);
                    for _ in 0..f { let e = d.next().unwrap(); yielded.push(e.downcast::<El<N>>().unwrap().id()); }
                    for _ in 0..b { let e = d.next_back().unwrap(); yielded.push(e.downcast::<El<N>>().unwrap().id()); }
                    if s.g("how") == 3 { std::mem::forget(d); leaked_ok = true; } else { drop(d); }
                } else {
                    struct It<const N: usize>(Vec<u32>, usize, usize);
                    impl<const N: usize> Iterator for It<N> { type Item = AnyValueWrapper<El<N>>;
                        fn next(&mut self) -> Option<Self::Item> { user_code(); if self.1 >= self.0.len() { None } else { self.1 += 1; self.2 = self.2.saturating_sub(1); Some(AnyValueWrapper::new(El::new(self.0[self.1 - 1]))) } } }
                    impl<const N: usize> ExactSizeIterator for It<N> { fn len(&self) -> usize { self.2 } }
                    let mut d = v.splice(start..end, It::<N>(repl.clone(), 0, report));
                    for _ in 0..f { let e = d.next().unwrap(); yielded.push(e.downcast::<El<N>>().unwrap().id()); }
                    for _ in 0..b { let e = d.next_back().unwrap(); yielded.push(e.downcast::<El<N>>().unwrap().id()); }
                    if s.g("how") == 3 { std::mem::forget(d); leaked_ok = true; } else { drop(d); }
                }
                let mut exp_y: Vec<u32> = m[start..start + f].to_vec();
                exp_y.extend(m[end - b..end].iter().rev());
                if maskv::<N>(&exp_y) != maskv::<N>(&yielded) { return Err(format!("yielded {:?} expected {:?}", yielded, exp_y)); }
                if s.g("how") == 3 { m.truncate(start); }
                else if report != k { leaked_ok = true; let kk = k.min(report); m.splice(start..end, repl[..kk].iter().cloned()); }
                else { m.splice(start..end, repl.iter().cloned()); }
            }
            5 => { v.clear(); m.clear(); }
            6 => { let c = v.clone(); let ci = ids::<N>(&c);
                   if N == 0 { let total: u32 = CLONES.with(|c| c.borrow().values().sum()); if total as usize != len { return Err(format!("clone of {} zero-sized elements ran Clone {} times", len, total)); } }
                   let exp: Vec<u32> = m.iter().map(|x| x + CLONE_OFF::<N>()).collect();
                   if maskv::<N>(&ci) != maskv::<N>(&exp) { return Err(format!("clone holds {:?} expected {:?}", ci, exp)); } }
            7 => { // move the j-th element of another vector in (op 0 remove 1 swap_remove 2 pop)
                let (mut o, mut mo) = fill::<N>(s.u("len_b"), s.u("cap_b"), 200);
                let j = if s.g("op") == 2 { mo.len() - 1 } else { s.u("j") };
                let index = if s.g("push") == 1 { len } else { s.u("index") };
                let id = match s.g("op") { 0 => mo.remove(j), 1 => mo.swap_remove(j), _ => mo.pop().unwrap() };
                m.insert(index, id);
                match s.g("op") { 0 => { let h = o.remove(j); if s.g("push") == 1 { v.push(h) } else { v.insert(index, h) } }
                                  1 => { let h = o.swap_remove(j); if s.g("push") == 1 { v.push(h) } else { v.insert(index, h) } }
                                  _ => { let h = o.pop().unwrap(); if s.g("push") == 1 { v.push(h) } else { v.insert(index, h) } } }
                if maskv::<N>(&ids::<N>(&o)) != maskv::<N>(&mo) { return Err(format!("source vector is {:?} expected {:?}", ids::<N>(&o), mo)); }
            }
            8 => { // lazy clone of element j of another vector
                let (o, mo) = fill::<N>(s.u("len_b"), s.u("cap_b"), 200);
                let j = s.u("j");
                let index = if s.g("push") == 1 { len } else { s.u("index") };
                m.insert(index, mo[j] + CLONE_OFF::<N>());
                { let e = o.at(j); if s.g("push") == 1 { v.push(e.lazy_clone()) } else { v.insert(index, e.lazy_clone()) } }
                if maskv::<N>(&ids::<N>(&o)) != maskv::<N>(&mo) { return Err(format!("source vector changed: {:?}", ids::<N>(&o))); }
            }
            9 => { let n = s.u("n"); let c0 = v.capacity(); if s.g("exact") == 1 { v.reserve_exact(n) } else { v.reserve(n) }
                   if v.capacity() < len + n { return Err(format!("capacity {} < len + n = {}", v.capacity(), len + n)); }
                   if c0 >= len + n && v.capacity() != c0 { return Err(format!("capacity changed {} -> {} although sufficient", c0, v.capacity())); } }
            10 => { let n = s.u("n"); let c0 = v.capacity(); if s.g("fit") == 1 { v.shrink_to_fit() } else { v.shrink_to(n) }
                    let bound = if s.g("fit") == 1 { len } else { len.max(n) };
                    if v.capacity() > c0 { return Err(format!("shrink grew capacity {} -> {}", c0, v.capacity())); }
                    if v.capacity() != c0.min(bound) { return Err(format!("capacity {} expected {}", v.capacity(), c0.min(bound))); } }
            _ => return Err("unknown scenario family".into()),
        }
        Ok(())
    }));
    let panicked = r.is_err();
    if let Ok(Err(e)) = r { return Err(e); }
    if panicked && !s.m.contains_key("panic_at") { return Err("the operation panicked".into()); }
    PANIC_AT.with(|p| *p.borrow_mut() = -1);
    let got = ids::<N>(&v);
    if !panicked {
        if maskv::<N>(&got) != maskv::<N>(&m) { return Err(format!("vector is {:?}, Vec gives {:?}", got, m)); }
        if v.len() != m.len() { return Err(format!("len {} expected {}", v.len(), m.len())); }
    } else {
        // after a user-code panic: every visible element appears once
        let mut seen = got.clone(); seen.sort(); let n0 = seen.len(); seen.dedup();
        if N >= 4 && seen.len() != n0 { return Err(format!("after the panic an element is visible twice: {:?}", got)); }
        if N >= 4 {
            let dead: Vec<u32> = got.iter().cloned().filter(|i| DROPS.with(|d| d.borrow().get(i).cloned().unwrap_or(0) > 0)).collect();
            if !dead.is_empty() { return Err(format!("after the panic destroyed elements are still visible: {:?}", dead)); }
        }
    }
    if v.len() > v.capacity() { return Err("len > capacity".into()); }
    drop(v);
    // zero-sized elements: accounting by count
    if N == 0 && !leaked_ok && !panicked && (fam == 5 || fam == 2) {
        let total = DROPS.with(|d| d.borrow().values().sum::<u32>()) as usize;
        if total != len { return Err(format!("{} zero-sized elements were placed in the vector, {} destructor calls ran", len, total)); }
    }
    if N == 0 && fam == 6 && !panicked {
        let total = DROPS.with(|d| d.borrow().values().sum::<u32>()) as usize;
        if total != 2 * len { return Err(format!("{} zero-sized elements and their {} clones: {} destructor calls ran", len, len, total)); }
    }
    // destructor accounting (N >= 4 only: ids are unique there)
    if N >= 4 {
        let bad: Vec<(u32, u32)> = DROPS.with(|d| d.borrow().iter().filter(|(_, c)| **c > 1).map(|(a, b)| (*a, *b)).collect());
        if !bad.is_empty() { return Err(format!("destroyed more than once (id, times): {:?}", bad)); }
        if !leaked_ok && !panicked {
            let dropped = DROPS.with(|d| d.borrow().len());
            let mut all: Vec<u32> = (1..=len as u32).collect();
            let missing: Vec<u32> = all.drain(..).filter(|i| DROPS.with(|d| !d.borrow().contains_key(i))).collect();
            if !missing.is_empty() { return Err(format!("never destroyed (leaked): {:?}", missing)); }
        }
    }
    Ok(())
}


// ---- additional scenario families (self-contained, exhaustive over small instances) -------------------
fn vec_of<const N: usize>(n: usize) -> (V<N>, Vec<u32>) { fill::<N>(n, n + 2, 1) }

/// every RangeBounds form against Vec (drain)
fn fam_range<const N: usize>() -> Result<(), String> {
    use std::ops::Bound::*;
    for len in 0..=3usize {
        let vals: Vec<usize> = vec![0, 1, 2, 3, 4, usize::MAX - 1, usize::MAX];
        for sk in 0..3 { for ek in 0..3 { for &sv in &vals { for &ev in &vals {
            let sb = match sk { 0 => Included(sv), 1 => Excluded(sv), _ => Unbounded };
            let eb = match ek { 0 => Included(ev), 1 => Excluded(ev), _ => Unbounded };
            let (mut v, mut m) = vec_of::<N>(len);
            let want = catch_unwind(AssertUnwindSafe(|| { let d: Vec<u32> = m.drain((sb, eb)).collect(); d }));
            let got = catch_unwind(AssertUnwindSafe(|| { let d: Vec<u32> = v.drain((sb, eb)).map(|e| e.downcast::<El<N>>().unwrap().id()).collect(); d }));
            match (want, got) {
                (Ok(a), Ok(b)) => { if maskv::<N>(&a) != maskv::<N>(&b) || maskv::<N>(&ids::<N>(&v)) != maskv::<N>(&m) { return Err(format!("drain({:?},{:?}) on len {}: yielded {:?} / left {:?}, Vec yields {:?} / leaves {:?}", sb, eb, len, b, ids::<N>(&v), a, m)); } }
                (Err(_), Err(_)) => { if ids::<N>(&v).len() != len { return Err(format!("invalid range ({:?},{:?}) changed the vector", sb, eb)); } }
                (Ok(_), Err(_)) => return Err(format!("drain({:?},{:?}) on len {} panicked, Vec accepts it", sb, eb, len)),
                (Err(_), Ok(_)) => return Err(format!("drain({:?},{:?}) on len {} returned, Vec panics", sb, eb, len)),
            }
        } } } }
    }
    Ok(())
}

/// values of the wrong runtime type must be refused (push / insert / splice), vector unchanged (valid for splice)
fn fam_mismatch() -> Result<(), String> {
    for len in 0..=3usize { for index in 0..=len {
        let mut v: AnyVec = AnyVec::new::<u64>();
        { let mut t = v.downcast_mut::<u64>().unwrap(); for i in 0..len { t.push(i as u64 + 1); } }
        let before: Vec<u64> = v.downcast_ref::<u64>().unwrap().as_slice().to_vec();
        let r = catch_unwind(AssertUnwindSafe(|| v.insert(index, AnyValueWrapper::new(7i64))));
        if r.is_ok() { return Err(format!("insert({}, i64 value) into a vector of u64 (len {}) was accepted", index, len)); }
        if v.downcast_ref::<u64>().unwrap().as_slice() != &before[..] { return Err("refused insert changed the vector".into()); }
        let r = catch_unwind(AssertUnwindSafe(|| v.push(AnyValueWrapper::new([0u8; 8]))));
        if r.is_ok() { return Err(format!("push([u8;8] value) into a vector of u64 (len {}) was accepted", len)); }
        for bad_at in 0..3usize {
            let mut w: AnyVec = AnyVec::new::<u64>();
            { let mut t = w.downcast_mut::<u64>().unwrap(); for i in 0..len { t.push(i as u64 + 1); } }
            let xs = [11u64, 12, 13]; let y = 5i64;
            let items: Vec<AnyValueRaw> = (0..3).map(|i| unsafe { if i == bad_at { AnyValueRaw::new(NonNull::from(&y).cast::<u8>(), 8, TypeId::of::<i64>()) } else { AnyValueRaw::new(NonNull::from(&xs[i]).cast::<u8>(), 8, TypeId::of::<u64>()) } }).collect();
            let r = catch_unwind(AssertUnwindSafe(|| { drop(w.splice(index.min(len)..len, items)); }));
            if r.is_ok() { return Err(format!("splice whose replacement #{} is an i64 was accepted by a vector of u64", bad_at)); }
            if w.len() > w.capacity() { return Err("after the refused splice len > capacity".into()); }
        }
    } }
    Ok(())
}

/// clones of shared iterators: taken in any cursor state they yield exactly the remaining items
fn fam_iter_clone<const N: usize>() -> Result<(), String> {
    for len in 0..=4usize { for f in 0..=len { for b in 0..=(len - f) {
        let (v, m) = vec_of::<N>(len);
        let mut it = v.iter(); let mut mi = m.iter();
        for _ in 0..f { it.next(); mi.next(); }
        for _ in 0..b { it.next_back(); mi.next_back(); }
        let c = it.clone();
        if c.len() != mi.len() { return Err(format!("clone after {} front / {} back steps on len {} reports len {} (original {})", f, b, len, c.len(), mi.len())); }
        let got: Vec<u32> = c.map(|e| e.downcast_ref::<El<N>>().unwrap().id()).collect();
        let want: Vec<u32> = mi.clone().cloned().collect();
        if maskv::<N>(&got) != maskv::<N>(&want) { return Err(format!("clone after {} front / {} back steps on len {} yields {:?}, expected {:?}", f, b, len, got, want)); }
        if it.len() != mi.len() { return Err("consuming the clone disturbed the original".into()); }
    } } }
    Ok(())
}

/// every next/next_back interleaving against Vec for iter, iter_mut and drain; size_hint at every step
fn fam_iter<const N: usize>() -> Result<(), String> {
    for len in 0..=4usize { for start in 0..=len { for end in start..=len { for bits in 0..(1u32 << (end - start + 2)) {
        let steps = end - start + 2;
        for kind in 0..3 {
            if kind < 2 && (start != 0 || end != len) { continue; }
            let (mut v, mut m) = vec_of::<N>(len);
            let mut mi = m[start..end].iter();
            macro_rules! drive { ($it:expr, $id:expr) => {{ let mut it = $it;
                for s in 0..steps {
                    let rem = mi.len();
                    if it.size_hint() != (rem, Some(rem)) || it.len() != rem { return Err(format!("size_hint {:?} / len {} but {} items remain (kind {}, len {}, range {}..{}, step {})", it.size_hint(), it.len(), rem, kind, len, start, end, s)); }
                    let front = bits >> s & 1 == 0;
                    let (a, b) = if front { (it.next().map($id), mi.next().cloned()) } else { (it.next_back().map($id), mi.next_back().cloned()) };
                    if a.map(mask::<N>) != b.map(mask::<N>) { return Err(format!("{} yielded {:?}, Vec yields {:?} (kind {}, len {}, range {}..{}, step {}, choices {:b})", if front { "next" } else { "next_back" }, a, b, kind, len, start, end, s, bits)); }
                } }}}
            match kind {
                0 => drive!(v.iter(), |e| e.downcast_ref::<El<N>>().unwrap().id()),
                1 => drive!(v.iter_mut(), |e| e.downcast_ref::<El<N>>().unwrap().id()),
                _ => drive!(v.drain(start..end), |e| e.downcast::<El<N>>().unwrap().id()),
            }
        }
    } } } }
    Ok(())
}

#[derive(Clone, Copy)] #[repr(align(32))] struct Al32([u8; 32]);
/// byte / slice views and storage alignment
fn fam_views<const N: usize>() -> Result<(), String> {
    for len in 0..=3usize { for extra in 0..=2usize {
        let (mut v, m) = fill::<N>(len, len + extra, 1);
        let cap = v.capacity();
        let base = v.downcast_ref::<El<N>>().unwrap().as_ptr() as usize;
        if v.as_bytes().len() != len * N || v.as_bytes().as_ptr() as usize != base { return Err(format!("as_bytes: len {} ptr off {} for {} elements of {} bytes", v.as_bytes().len(), v.as_bytes().as_ptr() as usize - base, len, N)); }
        if v.as_bytes_mut().len() != len * N { return Err(format!("as_bytes_mut covers {} bytes for {} elements of {} bytes", v.as_bytes_mut().len(), len, N)); }
        let sp = v.spare_bytes_mut(); let (spl, spp) = (sp.len(), sp.as_ptr() as usize);
        if spl != (cap - len) * N || spp != base + len * N { return Err(format!("spare_bytes_mut: {} bytes at offset {} (len {}, cap {}, size {})", spl, spp - base, len, cap, N)); }
        let mut t = v.downcast_mut::<El<N>>().unwrap();
        let sc = t.spare_capacity_mut(); if sc.len() != cap - len || sc.as_ptr() as usize != base + len * N { return Err("spare_capacity_mut does not follow the elements".into()); }
        if t.as_slice().len() != len { return Err("as_slice length".into()); }
    } }
    let e: AnyVec = AnyVec::new::<Al32>();
    if e.downcast_ref::<Al32>().unwrap().as_ptr() as usize % 32 != 0 { return Err("empty Heap vector of an align(32) type: storage pointer misaligned".into()); }
    let e2: AnyVec<dyn None, any_vec::mem::Empty> = AnyVec::new::<Al32>();
    if e2.downcast_ref::<Al32>().unwrap().as_ptr() as usize % 32 != 0 { return Err("Empty-backed vector of an align(32) type: storage pointer misaligned".into()); }
    let mut h: AnyVec = AnyVec::new::<Al32>(); h.downcast_mut::<Al32>().unwrap().push(Al32([0; 32]));
    h.clear(); h.shrink_to_fit();
    if h.downcast_ref::<Al32>().unwrap().as_ptr() as usize % 32 != 0 { return Err("shrunk-to-empty Heap vector of an align(32) type: storage pointer misaligned".into()); }
    Ok(())
}

/// swap through every pairing of handle kinds, 32-byte elements
fn fam_swap() -> Result<(), String> {
    type E = El<32>;
    fn full(id: u32) -> E { let mut e = E::new(id); for i in 4..32 { e.0[i] = (id as u8).wrapping_mul(7).wrapping_add(i as u8); } e }
    fn same(a: &E, id: u32) -> bool { a.0 == full(id).0 }
    for ka in 0..4 { for kb in 0..4 {
        let mut va: AnyVec = AnyVec::new::<E>(); let mut vb: AnyVec = AnyVec::new::<E>();
        { let mut t = va.downcast_mut::<E>().unwrap(); for i in 0..3 { t.push(full(10 + i)); } }
        { let mut t = vb.downcast_mut::<E>().unwrap(); for i in 0..3 { t.push(full(20 + i)); } }
        let (mut oa, mut ob) = (full(30), full(40));
        macro_rules! with_b { ($a:expr) => {{ let a = $a;
            match kb { 0 => { let mut b = vb.at_mut(1); a.swap(&mut *b); }
                       1 => { let mut b = vb.remove(1); if b.size() != 32 || b.as_bytes().len() != 32 { return Err(format!("removal handle reports size {} / {} bytes for a 32-byte element", b.size(), b.as_bytes().len())); } a.swap(&mut b); std::mem::forget(b); unsafe { vb.set_len(3) }; }
                       2 => { let mut b = AnyValueWrapper::new(std::mem::replace(&mut ob, full(0))); a.swap(&mut b); ob = b.downcast::<E>().unwrap(); }
                       _ => { let mut b = unsafe { AnyValueRaw::new(NonNull::from(&mut ob).cast::<u8>(), 32, TypeId::of::<E>()) }; a.swap(&mut b); } } }}}
        match ka { 0 => { let mut a = va.at_mut(1); with_b!(&mut *a); }
                   1 => { let mut a = va.remove(1); with_b!(&mut a); std::mem::forget(a); unsafe { va.set_len(3) }; }
                   2 => { let mut a = AnyValueWrapper::new(std::mem::replace(&mut oa, full(0))); with_b!(&mut a); oa = a.downcast::<E>().unwrap(); }
                   _ => { let mut a = unsafe { AnyValueRaw::new(NonNull::from(&mut oa).cast::<u8>(), 32, TypeId::of::<E>()) }; with_b!(&mut a); } }
        let (ida, idb) = (if ka < 2 { 11 } else { 30 }, if kb < 2 { 21 } else { 40 });
        let sa = va.downcast_ref::<E>().unwrap().as_slice(); let sb = vb.downcast_ref::<E>().unwrap().as_slice();
        let na = if ka < 2 { &sa[1] } else { &oa }; let nb = if kb < 2 { &sb[1] } else { &ob };
        if !same(na, idb) || !same(nb, ida) { return Err(format!("swap of handle kinds ({}, {}) did not exchange exactly the two 32-byte values", ka, kb)); }
        if !same(&sa[0], 10) || !same(&sa[2], 12) || !same(&sb[0], 20) || !same(&sb[2], 22) { return Err(format!("swap of handle kinds ({}, {}) changed another element", ka, kb)); }
        std::mem::forget(va); std::mem::forget(vb); std::mem::forget(oa); std::mem::forget(ob);
    } }
    Ok(())
}

/// raw parts round trip (Heap, Empty) incl. a field-wise clone of the parts
fn fam_rawparts<const N: usize>() -> Result<(), String> {
    for len in 0..=3usize { for extra in 0..=2usize {
        let (v, m) = fill::<N>(len, len + extra, 1);
        let (cap, lay, tid) = (v.capacity(), v.element_layout(), v.element_typeid());
        let p = v.into_raw_parts();
        if p.len != len || p.capacity != cap || p.element_layout != lay || p.element_typeid != tid { return Err(format!("into_raw_parts reports len {} cap {} (true {} {})", p.len, p.capacity, len, cap)); }
        let q = p.clone();
        if q.len != p.len || q.capacity != p.capacity || q.element_layout != p.element_layout || q.element_typeid != p.element_typeid || q.mem_handle != p.mem_handle
            { return Err(format!("RawParts::clone reports len {} capacity {} for len {} capacity {}", q.len, q.capacity, p.len, p.capacity)); }
        let v2: V<N> = unsafe { AnyVec::from_raw_parts(p) };
        if maskv::<N>(&ids::<N>(&v2)) != maskv::<N>(&m) || v2.capacity() != cap || v2.element_layout() != lay { return Err("rebuilt vector differs from the original".into()); }
        let c = v2.clone(); if c.len() != len { return Err("clone function lost in the round trip".into()); }
    } }
    let e: AnyVec<dyn None, any_vec::mem::Empty> = AnyVec::new::<El<N>>();
    let lay = e.element_layout();
    let p = e.into_raw_parts();
    let e2: AnyVec<dyn None, any_vec::mem::Empty> = unsafe { AnyVec::from_raw_parts(p) };
    if e2.element_layout() != lay { return Err(format!("Empty round trip changed the element layout to {:?}", e2.element_layout())); }
    Ok(())
}

/// amortised growth: reallocations logarithmic in the number of pushes
fn fam_growth() -> Result<(), String> {
    for n in [4096usize, 65536] {
        let mut v: AnyVec = AnyVec::new::<usize>();
        let (mut changes, mut cap) = (0u32, v.capacity());
        { let mut t = v.downcast_mut::<usize>().unwrap(); for i in 0..n { t.push(i); if t.capacity() != cap { cap = t.capacity(); changes += 1; } } }
        let bound = (usize::BITS - n.leading_zeros()) + 2;
        if changes > bound { return Err(format!("{} pushes caused {} capacity changes (logarithmic bound {})", n, changes, bound)); }
    }
    Ok(())
}

/// Stack / StackN capacities on a small grid, operations at the capacity boundary
fn fam_stack() -> Result<(), String> {
    use any_vec::mem::{Stack, StackN};
    macro_rules! cap_is { ($m:ty, $t:ty, $want:expr) => {{
        let r = catch_unwind(|| { let v: AnyVec<dyn Cloneable, $m> = AnyVec::new::<$t>(); v.capacity() });
        match r { Ok(c) => if c != $want { return Err(format!("{} of {}: capacity {} expected {}", stringify!($m), stringify!($t), c, $want)); },
                  Err(_) => return Err(format!("{} of {}: construction panicked although the elements fit", stringify!($m), stringify!($t))) } }}}
    cap_is!(Stack<16>, u64, 2); cap_is!(Stack<17>, u64, 2); cap_is!(Stack<15>, u64, 1); cap_is!(Stack<9>, [u8; 3], 3); cap_is!(Stack<0>, (), usize::MAX);
    cap_is!(StackN<2, 16>, u64, 2); cap_is!(StackN<4, 32>, u64, 4); cap_is!(StackN<3, 9>, [u8; 3], 3); cap_is!(StackN<7, 0>, (), 7); cap_is!(StackN<0, 0>, u64, 0);
    if catch_unwind(|| { let _v: AnyVec<dyn None, StackN<2, 15>> = AnyVec::new::<u64>(); }).is_ok() { return Err("StackN<2,15> of u64 was built although 2 elements do not fit".into()); }
    // full fixed-capacity vector: clone, and a splice whose result has exactly the capacity
    let mut v: AnyVec<dyn Cloneable, StackN<4, 32>> = AnyVec::new::<u64>();
    { let mut t = v.downcast_mut::<u64>().unwrap(); for i in 0..4 { t.push(i); } }
    let r = catch_unwind(AssertUnwindSafe(|| { let c = v.clone(); c.downcast_ref::<u64>().unwrap().as_slice().to_vec() }));
    match r { Ok(c) => if c != vec![0, 1, 2, 3] { return Err(format!("clone of a full StackN vector is {:?}", c)); }, Err(_) => return Err("clone of a full fixed-capacity vector panicked although the contents fit".into()) }
    let r = catch_unwind(AssertUnwindSafe(|| { drop(v.splice(1..3, [AnyValueWrapper::new(7u64), AnyValueWrapper::new(8u64)])); }));
    if r.is_err() { return Err("splice on a full fixed-capacity vector panicked although the result fits".into()); }
    if v.downcast_ref::<u64>().unwrap().as_slice() != &[0, 7, 8, 3] { return Err("splice at the capacity boundary gave a wrong result".into()); }
    let before = v.downcast_ref::<u64>().unwrap().as_slice().to_vec();
    if catch_unwind(AssertUnwindSafe(|| v.push(AnyValueWrapper::new(9u64)))).is_ok() { return Err("push beyond a fixed capacity returned".into()); }
    if v.downcast_ref::<u64>().unwrap().as_slice() != &before[..] { return Err("refused push changed the contents".into()); }
    for index in 0..=4usize {
        if catch_unwind(AssertUnwindSafe(|| v.insert(index, AnyValueWrapper::new(9u64)))).is_ok() { return Err("insert beyond a fixed capacity returned".into()); }
        if v.downcast_ref::<u64>().unwrap().as_slice() != &before[..] { return Err(format!("insert({}) beyond a fixed capacity panicked but left the contents {:?} (before: {:?})", index, v.downcast_ref::<u64>().unwrap().as_slice(), before)); }
    }
    let e: AnyVec<dyn Cloneable, Stack<64>> = AnyVec::new::<u64>();
    if catch_unwind(AssertUnwindSafe(|| { let _ = e.clone(); })).is_err() { return Err("clone of an empty Stack vector panicked".into()); }
    // storage alignment for over-aligned element types, the vector placed at every admissible offset of an aligned arena
    #[derive(Clone, Copy)] #[repr(align(64))] struct Al64([u8; 64]);
    #[repr(align(64))] struct Arena([u8; 4096]);
    macro_rules! placed { ($m:ty, $t:ty, $al:expr) => {{
        let r = catch_unwind(|| -> Result<(), String> {
            let mut arena = std::mem::MaybeUninit::<Arena>::uninit();
            let base = arena.as_mut_ptr() as usize;
            let mut off = 0;
            while off + std::mem::size_of::<AnyVec<dyn None, $m>>() <= 2048 {
                if (base + off) % std::mem::align_of::<AnyVec<dyn None, $m>>() == 0 {
                    let p = (base + off) as *mut AnyVec<dyn None, $m>;
                    unsafe { p.write(AnyVec::new::<$t>()); let a = (*p).downcast_ref::<$t>().unwrap().as_ptr() as usize; p.drop_in_place();
                        if a % $al != 0 { return Err(format!("{} of an align({}) type placed at arena offset {}: storage pointer misaligned", stringify!($m), $al, off)); } }
                }
                off += 8;
            }
            Ok(()) });
        match r { Ok(Ok(())) => {}, Ok(Err(e)) => return Err(e), Err(_) => return Err(format!("{} of an align({}) type: construction panicked", stringify!($m), $al)) } }}}
    placed!(Stack<128>, Al32, 32); placed!(StackN<2, 128>, Al32, 32); placed!(Stack<128>, Al64, 64); placed!(StackN<1, 64>, Al64, 64);
    Ok(())
}

/// get / at / get_mut at every index incl. len and len + 1
fn fam_get<const N: usize>() -> Result<(), String> {
    for len in 0..=4usize { for i in 0..=len + 1 {
        let (mut v, m) = vec_of::<N>(len);
        let want = m.get(i).cloned();
        let got = v.get(i).map(|e| e.downcast_ref::<El<N>>().unwrap().id());
        if got.map(mask::<N>) != want.map(mask::<N>) { return Err(format!("get({}) on len {} is {:?}, Vec gives {:?}", i, len, got, want)); }
        let gm = v.get_mut(i).map(|e| e.downcast_ref::<El<N>>().unwrap().id());
        if gm.map(mask::<N>) != want.map(mask::<N>) { return Err(format!("get_mut({}) on len {} is {:?}", i, len, gm)); }
        if let Some(e) = v.get(i) { if e.size() != N || e.as_bytes().len() != N || e.value_typeid() != TypeId::of::<El<N>>() { return Err("element handle misreports size / bytes / type".into()); } }
        let r = catch_unwind(AssertUnwindSafe(|| v.at(i).downcast_ref::<El<N>>().unwrap().id()));
        if r.is_ok() != (i < len) { return Err(format!("at({}) on len {}: panic expected exactly when out of range", i, len)); }
    } }
    Ok(())
}


// ---- auditing global allocator (only active while AUDIT is set; one-slot table: a vector owns at most one block)
use std::alloc::{GlobalAlloc, Layout, System};
use std::sync::atomic::{AtomicBool, AtomicUsize, Ordering::SeqCst};
struct Audit;
static AUDIT: AtomicBool = AtomicBool::new(false);
static A_PTR: AtomicUsize = AtomicUsize::new(0);
static A_SIZE: AtomicUsize = AtomicUsize::new(0);
static A_ALIGN: AtomicUsize = AtomicUsize::new(0);
static A_LIVE: AtomicUsize = AtomicUsize::new(0);
static A_ERR: AtomicUsize = AtomicUsize::new(0);
fn a_err(c: usize) { let _ = A_ERR.compare_exchange(0, c, SeqCst, SeqCst); }
fn a_valid(size: usize, align: usize) -> bool { size <= isize::MAX as usize - (align - 1) }
unsafe impl GlobalAlloc for Audit {
    unsafe fn alloc(&self, l: Layout) -> *mut u8 {
        if !AUDIT.load(SeqCst) { return System.alloc(l); }
        if l.size() == 0 { a_err(1); }
        let real = if a_valid(l.size(), l.align()) && l.size() < (1 << 32) { l } else { if !a_valid(l.size(), l.align()) { a_err(2); } Layout::from_size_align(64, l.align()).unwrap() };
        let p = System.alloc(real);
        if A_LIVE.fetch_add(1, SeqCst) != 0 { a_err(3); }
        A_PTR.store(p as usize, SeqCst); A_SIZE.store(l.size(), SeqCst); A_ALIGN.store(l.align(), SeqCst);
        p
    }
    unsafe fn dealloc(&self, p: *mut u8, l: Layout) {
        if !AUDIT.load(SeqCst) || A_PTR.load(SeqCst) != p as usize { return System.dealloc(p, l); }
        if l.size() != A_SIZE.load(SeqCst) || l.align() != A_ALIGN.load(SeqCst) { a_err(5); }
        A_LIVE.fetch_sub(1, SeqCst); A_PTR.store(0, SeqCst);
        let real = if a_valid(A_SIZE.load(SeqCst), l.align()) && A_SIZE.load(SeqCst) < (1 << 32) { Layout::from_size_align(A_SIZE.load(SeqCst), A_ALIGN.load(SeqCst)).unwrap() } else { Layout::from_size_align(64, A_ALIGN.load(SeqCst)).unwrap() };
        System.dealloc(p, real)
    }
    unsafe fn realloc(&self, p: *mut u8, l: Layout, new_size: usize) -> *mut u8 {
        if !AUDIT.load(SeqCst) || A_PTR.load(SeqCst) != p as usize { return System.realloc(p, l, new_size); }
        if l.size() != A_SIZE.load(SeqCst) || l.align() != A_ALIGN.load(SeqCst) { a_err(4); }
        if new_size == 0 { a_err(1); }
        if !a_valid(new_size, l.align()) { a_err(2); }
        let old_real = if a_valid(A_SIZE.load(SeqCst), l.align()) && A_SIZE.load(SeqCst) < (1 << 32) { A_SIZE.load(SeqCst) } else { 64 };
        let new_real = if a_valid(new_size, l.align()) && new_size < (1 << 32) { new_size } else { 64 };
        let q = System.realloc(p, Layout::from_size_align(old_real, l.align()).unwrap(), new_real);
        A_PTR.store(q as usize, SeqCst); A_SIZE.store(new_size, SeqCst);
        q
    }
}
#[global_allocator]
static GLOBAL: Audit = Audit;
fn audited<R>(f: impl FnOnce() -> R) -> (R, usize, usize) {
    A_ERR.store(0, SeqCst); A_LIVE.store(0, SeqCst); A_PTR.store(0, SeqCst);
    AUDIT.store(true, SeqCst);
    let r = f();
    AUDIT.store(false, SeqCst);
    (r, A_ERR.load(SeqCst), A_LIVE.load(SeqCst))
}
fn a_msg(c: usize) -> &'static str { match c { 1 => "a zero-sized request reached the allocator", 2 => "a request with an invalid layout (size overflowing isize) reached the allocator",
    3 => "more than one allocation owned at a time", 4 => "realloc presented a layout different from the allocation's", 5 => "dealloc presented a layout different from the allocation's", _ => "?" } }

/// heap protocol: histories of capacity calls under the auditing allocator
fn fam_heap() -> Result<(), String> {
    macro_rules! hist { ($t:ty, $mk:expr) => {{
        for n in [0usize, 1, 3, 8] { for m in [0usize, 1, 2, 9] {
            let (_, err, live) = audited(|| {
                let mut v: AnyVec = AnyVec::with_capacity::<$t>(n);
                { let mut t = v.downcast_mut::<$t>().unwrap(); for _ in 0..m { t.push($mk); } }
                v.reserve(m); v.shrink_to(m / 2 + 1); v.shrink_to_fit(); v.reserve_exact(3);
                { let mut t = v.downcast_mut::<$t>().unwrap(); t.clear(); }
                v.shrink_to_fit();
                let empty_live = A_LIVE.load(SeqCst);
                drop(v);
                empty_live
            });
            if err != 0 { return Err(format!("{} (element {}, with_capacity({}), {} pushes): {}", "heap history", stringify!($t), n, m, a_msg(err))); }
            if live != 0 { return Err(format!("element {}, with_capacity({}), {} pushes: {} allocation(s) still live after drop (leak)", stringify!($t), n, m, live)); }
        } }
    }}}
    hist!(u64, 7u64); hist!([u8; 3], [1u8; 3]); hist!((), ()); hist!(Al32, Al32([0; 32]));
    // shrunk to empty / zero-sized: no allocation at all
    let (l, err, _) = audited(|| { let mut v: AnyVec = AnyVec::with_capacity::<u64>(4); v.shrink_to_fit(); let l = A_LIVE.load(SeqCst); drop(v); l });
    if l != 0 || err != 0 { return Err("a vector shrunk to zero capacity still owns an allocation".into()); }
    let (l, err, _) = audited(|| { let v: AnyVec = AnyVec::with_capacity::<()>(5); let l = A_LIVE.load(SeqCst); drop(v); l });
    if l != 0 || err != 0 { return Err(format!("a vector of a zero-sized type owns an allocation ({})", a_msg(err))); }
    // invalid requests must panic before reaching the allocator: from zero and from an existing block
    let (r, err, _) = audited(|| catch_unwind(|| { let _v: AnyVec = AnyVec::with_capacity::<u8>(isize::MAX as usize + 1); }).is_err());
    if !r || (err != 0 && err != 3) { return Err(format!("with_capacity::<u8>(isize::MAX + 1): panicked={} / {}", r, a_msg(err))); }
    let (r, err, _) = audited(|| { let mut v: AnyVec = AnyVec::with_capacity::<u8>(16); let r = catch_unwind(AssertUnwindSafe(|| v.reserve_exact(isize::MAX as usize + 5))).is_err(); std::mem::forget(v); r });
    if !r || (err != 0 && err != 3) { return Err(format!("reserve_exact(isize::MAX + 5) on an allocated vector: panicked={} / {}", r, a_msg(err))); }
    let (r, err, _) = audited(|| { let mut v: AnyVec = AnyVec::with_capacity::<u16>(16); let r = catch_unwind(AssertUnwindSafe(|| v.reserve(isize::MAX as usize / 2 + 5))).is_err(); std::mem::forget(v); r });
    if !r || (err != 0 && err != 3) { return Err(format!("reserve(isize::MAX/2 + 5) of u16 on an allocated vector: panicked={} / {}", r, a_msg(err))); }
    Ok(())
}

/// lazy clones: every source kind x consumption kind x chain depth; clones counted per source element
fn fam_lazyall<const N: usize>() -> Result<(), String> {
    fn clones(id: u32) -> u32 { CLONES.with(|c| c.borrow().get(&id).cloned().unwrap_or(0)) }
    for src_kind in 0..5 { for cons in 0..4 { for depth in 1..=3 {
        CLONES.with(|c| c.borrow_mut().clear()); DROPS.with(|c| c.borrow_mut().clear());
        let (mut v, m) = fill::<N>(3, 4, 1);
        let (mut dst, _) = fill::<N>(2, 2, 50);
        let want = 2u32;   // two consumptions
        macro_rules! consume { ($e:expr) => {{ let e = $e;
            for _ in 0..2 {
                macro_rules! go { ($l:expr) => {{ let l = $l; match cons {
                    0 => dst.push(l), 1 => dst.insert(1, l),
                    2 => { drop(dst.splice(0..0, [l])); }
                    _ => { let x: El<N> = l.downcast::<El<N>>().unwrap(); drop(x); } } }}}
                match depth { 1 => go!(e.lazy_clone()), 2 => { let a = e.lazy_clone(); go!(a.lazy_clone()) }, _ => { let a = e.lazy_clone(); let b = a.lazy_clone(); go!(b.lazy_clone()) } }
            }
            let unused = e.lazy_clone(); let copy = unused.clone(); drop(copy); drop(unused);
        }}}
        let id = match src_kind {
            0 => { let e = v.at(1); consume!(&*e); 2 }
            1 => { let e = v.at_mut(1); consume!(&*e); 2 }
            2 => { let mut d = v.drain(1..2); let e = d.next().unwrap(); consume!(&e); drop(e); drop(d); 2 }
            3 => { let h = v.remove(1); consume!(&h); drop(h); 2 }
            _ => { let h = v.pop().unwrap(); consume!(&h); drop(h); 3 }
        };
        if N == 0 {
            let total: u32 = CLONES.with(|c| c.borrow().values().sum());
            if total != want { return Err(format!("zero-sized elements, source kind {}, consumption {}, chain depth {}: {} clones for 2 consumptions", src_kind, cons, depth, total)); }
        }
        if N >= 4 {
            if clones(id) != want { return Err(format!("source kind {}, consumption {}, chain depth {}: source element cloned {} times for 2 consumptions", src_kind, cons, depth, clones(id))); }
            let others: u32 = CLONES.with(|c| c.borrow().iter().filter(|(k, _)| **k != id).map(|(_, v)| *v).sum());
            if others != 0 { return Err("an element other than the source was cloned".into()); }
        }
        let expect_dst = match cons { 0 | 1 | 2 => 4, _ => 2 };
        if dst.len() != expect_dst { return Err(format!("destination has {} elements, expected {}", dst.len(), expect_dst)); }
        if N >= 4 && cons < 3 { let di = ids::<N>(&dst); if di.iter().filter(|x| **x == id + CLONE_OFF::<N>()).count() != 2 { return Err(format!("destination {:?} does not hold exactly the 2 clones of element {}", di, id)); } }
    } } }
    Ok(())
}

fn extra(s: &Scn) -> Option<Result<(), String>> {
    macro_rules! by_size { ($f:ident) => { match s.u("esz") { 1 => $f::<1>(), 3 => $f::<3>(), 12 => $f::<12>(), 16 => $f::<16>(), 24 => $f::<24>(), 160 => $f::<160>(), _ => $f::<8>() } } }
    Some(match s.g("fam") { 11 => by_size!(fam_range), 12 => fam_mismatch(), 13 => by_size!(fam_iter).and_then(|_| by_size!(fam_iter_clone)), 14 => by_size!(fam_views).and_then(|_| fam_views::<3>()).and_then(|_| fam_views::<12>()),
        15 => fam_swap(), 16 => by_size!(fam_rawparts), 20 => if s.g("zst") == 1 { fam_lazyall::<0>() } else { by_size!(fam_lazyall) }, 21 => fam_heap(), 17 => fam_growth(), 18 => fam_stack(), 19 => by_size!(fam_get), _ => return None })
}

/// element type WITHOUT drop glue (u64): contents and lengths only, against Vec<u64>
fn run_nodrop(s: &Scn) -> Result<(), String> {
    let (len, cap) = (s.u("len"), s.u("cap"));
    let mut v: AnyVec = AnyVec::with_capacity::<u64>(cap.max(len).min(1 << 21));
    let mut m: Vec<u64> = (0..len as u64).map(|i| 1 + i).collect();
    { let mut t = v.downcast_mut::<u64>().unwrap(); for x in m.iter() { t.push(*x); } }
    let r = catch_unwind(AssertUnwindSafe(|| -> Result<(), String> {
        match s.g("fam") {
            1 => { let index = if s.g("push") == 1 { len } else { s.u("index") }; if index > len { return Ok(()); }
                   m.insert(index, 5000);
                   let w = AnyValueWrapper::new(5000u64); if s.g("push") == 1 { v.push(w) } else { v.insert(index, w) } }
            2 => { if len == 0 { return Ok(()); }
                   let index = if s.g("op") == 2 { len - 1 } else { s.u("index") }; if index >= len { return Ok(()); }
                   let id = match s.g("op") { 0 => m.remove(index), 1 => m.swap_remove(index), _ => m.pop().unwrap() };
                   let got = match s.g("op") { 0 => { let h = v.remove(index); let g = *h.downcast_ref::<u64>().unwrap(); if s.g("sink") == 2 { h.downcast::<u64>().unwrap() } else { drop(h); g } }
                                               1 => { let h = v.swap_remove(index); let g = *h.downcast_ref::<u64>().unwrap(); if s.g("sink") == 2 { h.downcast::<u64>().unwrap() } else { drop(h); g } }
                                               _ => { let h = v.pop().unwrap(); let g = *h.downcast_ref::<u64>().unwrap(); if s.g("sink") == 2 { h.downcast::<u64>().unwrap() } else { drop(h); g } } };
                   if got != id { return Err(format!("removed value {} expected {}", got, id)); } }
            3 | 4 => {
                let (start, end, f, b, k) = (s.u("start"), s.u("end"), s.u("f"), s.u("b"), s.u("k"));
                let repl: Vec<u64> = (0..k as u64).map(|i| 5000 + i).collect();
                let mut yielded = vec![];
                if s.g("fam") == 3 {
                    let mut d = v.drain(start..end);
                    for _ in 0..f { yielded.push(d.next().unwrap().downcast::<u64>().unwrap()); }
                    for _ in 0..b { yielded.push(d.next_back().unwrap().downcast::<u64>().unwrap()); }
                } else {
                    let mut d = v.splice(start..end, repl.iter().map(|x| AnyValueWrapper::new(*x)));
                    for _ in 0..f { yielded.push(d.next().unwrap().downcast::<u64>().unwrap()); }
                    for _ in 0..b { yielded.push(d.next_back().unwrap().downcast::<u64>().unwrap()); }
                }
                let mut exp_y: Vec<u64> = m[start..start + f].to_vec();
                exp_y.extend(m[end - b..end].iter().rev());
                if exp_y != yielded { return Err(format!("yielded {:?} expected {:?}", yielded, exp_y)); }
                m.splice(start..end, repl.iter().cloned());
            }
            5 => { v.clear(); m.clear(); }
            _ => return Ok(()),
        }
        Ok(())
    }));
    match r { Err(_) => return Err("the operation panicked (element type without drop glue)".into()), Ok(Err(e)) => return Err(e + " (element type without drop glue)"), _ => {} }
    let got: Vec<u64> = v.downcast_ref::<u64>().unwrap().as_slice().to_vec();
    if v.len() != m.len() { return Err(format!("len {} expected {} (element type without drop glue: u64)", v.len(), m.len())); }
    if got != m { return Err(format!("vector is {:?}, Vec gives {:?} (element type without drop glue: u64)", got, m)); }
    Ok(())
}

fn dispatch(s: &Scn) -> Result<(), String> {
    if let Some(r) = extra(s) { return r; }
    if s.m.get("nodrop").cloned().unwrap_or(0) == 1 { return run_nodrop(s); }
    if s.m.get("zst").cloned().unwrap_or(0) == 1 { return run::<0>(s); }
    match s.u("esz") { 1 => run::<1>(s), 2 => run::<2>(s), 3 => run::<3>(s), 12 => run::<12>(s), 16 => run::<16>(s),
                       24 => run::<24>(s), 160 => run::<160>(s), _ => run::<8>(s) }
}

fn search(base: &Scn) -> Option<(Scn, String)> {
    // exhaustive over the small instances of the family
    let fam = base.g("fam");
    let mut out = None;
    let mut try_one = |s: Scn| -> bool { if out.is_none() { if let Err(e) = dispatch(&s) { out = Some((s, e)); return true; } } false };
    for len in 0..=5usize { for cap in [len, len + 1, len + 3] {
        let mut s = base.clone(); s.m.insert("len".into(), len as i64); s.m.insert("cap".into(), cap as i64);
        match fam {
            1 => for index in 0..=len + 1 { let mut t = s.clone(); t.m.insert("index".into(), index as i64); if try_one(t) { return out; } },
            2 => for index in 0..=len { if index == len && (len == 0 || s.g("op") == 2) { continue; } let mut t = s.clone(); t.m.insert("index".into(), index as i64); if try_one(t) { return out; } },
            3 | 4 => for start in 0..=len { for end in start..=len { for f in 0..=(end - start) { for b in 0..=(end - start - f) {
                    for k in if fam == 4 { 0..=3usize } else { 0..=0usize } {
                        let mut t = s.clone();
                        for (n, x) in [("start", start), ("end", end), ("f", f), ("b", b), ("k", k)] { t.m.insert(n.into(), x as i64); }
                        if base.m.contains_key("report_delta") { t.m.insert("report".into(), (k as i64 + base.g("report_delta")).max(0)); }
                        if try_one(t) { return out; } } } } } },
            7 | 8 => for index in 0..=len { for len_b in 1..=3usize { for j in 0..len_b {
                    let mut t = s.clone(); for (n, x) in [("index", index), ("len_b", len_b), ("cap_b", len_b), ("j", j)] { t.m.insert(n.into(), x as i64); }
                    if try_one(t) { return out; } } } },
            9 | 10 => for n in 0..=8usize { let mut t = s.clone(); t.m.insert("n".into(), n as i64); if try_one(t) { return out; } },
            _ => { if try_one(s) { return out; } }
        }
    } }
    out
}

#[test]
fn vp_replay() {
    let scn = std::env::var("VP_SCN").unwrap_or_default();
    let s = Scn::parse(&scn);
    let prev = std::panic::take_hook();
    std::panic::set_hook(Box::new(|_| {}));
    let res = if std::env::var("VP_MODE").as_deref() == Ok("search") { search(&s) } else { dispatch(&s).err().map(|e| (s.clone(), e)) };
    std::panic::set_hook(prev);
    if let Some((s, e)) = res {
        let mut kv: Vec<String> = s.m.iter().map(|(k, v)| format!("{}={}", k, v)).collect(); kv.sort();
        println!("VP-REPRODUCED scenario: {}", kv.join(";"));
        println!("VP-REPRODUCED failure: {}", e);
        panic!("vp_replay: the real code disagrees with Vec: {}", e);
    }
    println!("VP-NOT-REPRODUCED");
}
