// Native replay driver: runs ONE operation scenario of the real any_vec code (public API, real
// Heap / Stack memory) next to std::vec::Vec and compares contents, length and destructor counts.
// Copied into `tests/` of a scratch copy of /repo by /verif/replay.py and run with the repository's
// own toolchain:  VP_SCN="fam=remove;op=0;sink=1;esz=8;len=3;cap=4;index=0" cargo test --test vp_replay
// VP_MODE=search enumerates all small scenarios of the family (len <= 5) instead.
#![allow(dead_code, unused_variables, unused_mut, unused_imports)]
use any_vec::any_value::*;
use any_vec::mem::{Heap, Stack};
use any_vec::traits::*;
use any_vec::AnyVec;
use std::any::TypeId;
use std::cell::RefCell;
use std::collections::HashMap;
use std::panic::{catch_unwind, AssertUnwindSafe};
use std::ptr::NonNull;

thread_local! {
    static DROPS: RefCell<HashMap<u32, u32>> = RefCell::new(HashMap::new());
    static CLONES: RefCell<HashMap<u32, u32>> = RefCell::new(HashMap::new());
    static ZDROPS: RefCell<u32> = RefCell::new(0);
    static PANIC_AT: RefCell<i64> = RefCell::new(-1);   // k-th user call-out panics
    static CALLS: RefCell<i64> = RefCell::new(0);
}
fn user_code() {
    let k = CALLS.with(|c| { let mut c = c.borrow_mut(); *c += 1; *c });
    if PANIC_AT.with(|p| *p.borrow()) == k { panic!("vp: injected user-code panic"); }
}

/// identity carrying element of N >= 1 bytes; id in the first min(N,4) bytes (little endian)
#[repr(C)]
struct El<const N: usize>([u8; N]);
impl<const N: usize> El<N> {
    fn new(id: u32) -> Self { let mut b = [0xA5u8; N]; let le = id.to_le_bytes(); for i in 0..N.min(4) { b[i] = le[i]; } El(b) }
    fn id(&self) -> u32 { let mut le = [0u8; 4]; for i in 0..N.min(4) { le[i] = self.0[i]; } u32::from_le_bytes(le) }
}
impl<const N: usize> Drop for El<N> {
    fn drop(&mut self) { let id = self.id(); DROPS.with(|d| *d.borrow_mut().entry(id).or_insert(0) += 1); user_code(); }
}
impl<const N: usize> Clone for El<N> {
    fn clone(&self) -> Self { user_code(); let id = self.id(); CLONES.with(|d| *d.borrow_mut().entry(id).or_insert(0) += 1); El::new(id + CLONE_OFF::<N>()) }
}
#[allow(non_snake_case)]
fn CLONE_OFF<const N: usize>() -> u32 { if N == 1 { 100 } else { 1000 } }

#[derive(Clone, Debug)]
struct Scn { m: HashMap<String, i64> }
impl Scn {
    fn parse(s: &str) -> Scn {
        let mut m = HashMap::new();
        for kv in s.split(';') { if let Some((k, v)) = kv.split_once('=') { m.insert(k.trim().to_string(), fam_code(v.trim())); } }
        Scn { m }
    }
    fn g(&self, k: &str) -> i64 { *self.m.get(k).unwrap_or(&0) }
    fn u(&self, k: &str) -> usize { self.g(k).max(0) as usize }
}
fn fam_code(v: &str) -> i64 {
    match v { "insert" => 1, "remove" => 2, "drain" => 3, "splice" => 4, "clear" => 5, "clone" => 6, "from_other" => 7, "lazy" => 8,
              "reserve" => 9, "shrink" => 10, _ => v.parse().unwrap_or(0) }
}

type V<const N: usize> = AnyVec<dyn Cloneable, Heap>;

fn fill<const N: usize>(len: usize, cap: usize, base: u32) -> (V<N>, Vec<u32>) {
    let mut v: V<N> = AnyVec::with_capacity::<El<N>>(cap.max(len).min(1 << 21));
    let mut m = Vec::new();
    { let mut t = v.downcast_mut::<El<N>>().unwrap(); for i in 0..len { t.push(El::new(base + i as u32)); m.push(base + i as u32); } }
    (v, m)
}
fn ids<const N: usize>(v: &V<N>) -> Vec<u32> { v.downcast_ref::<El<N>>().unwrap().as_slice().iter().map(|e| e.id()).collect() }
fn mask<const N: usize>(x: u32) -> u32 { if N >= 4 { x } else { x & ((1u32 << (8 * N)) - 1) } }
fn maskv<const N: usize>(m: &[u32]) -> Vec<u32> { m.iter().map(|x| mask::<N>(*x)).collect() }

struct Fail(String);

/// runs one scenario; Err(description) when the real code disagrees with Vec
fn run<const N: usize>(s: &Scn) -> Result<(), String> {
    DROPS.with(|d| d.borrow_mut().clear());
    CLONES.with(|d| d.borrow_mut().clear());
    CALLS.with(|c| *c.borrow_mut() = 0);
    PANIC_AT.with(|p| *p.borrow_mut() = if s.m.contains_key("panic_at") { s.g("panic_at") } else { -1 });
    let (len, cap) = (s.u("len"), s.u("cap"));
    let (mut v, mut m) = fill::<N>(len, cap, 1);
    let mut expect_alive: Vec<u32> = vec![];      // ids owned by the caller after the op
    let mut leaked_ok = false;
    let new_id = 5000u32;
    let fam = s.g("fam");
    // out-of-range index: Vec panics and so must the real code, leaving the vector unchanged
    let oob = (fam == 1 && s.g("push") != 1 && s.u("index") > len) || (fam == 2 && s.g("op") != 2 && s.u("index") >= len);
    if oob {
        let before = ids::<N>(&v);
        let index = s.u("index");
        let r = catch_unwind(AssertUnwindSafe(|| {
            if fam == 1 { v.insert(index, AnyValueWrapper::new(El::<N>::new(new_id))) }
            else if s.g("op") == 0 { drop(v.remove(index)) } else { drop(v.swap_remove(index)) }
        }));
        if r.is_ok() { return Err(format!("index {} is out of range for len {} but the call returned (Vec panics)", index, len)); }
        if maskv::<N>(&ids::<N>(&v)) != maskv::<N>(&before) { return Err(format!("the out-of-range call changed the vector: {:?} -> {:?}", before, ids::<N>(&v))); }
        return Ok(());
    }
    let r = catch_unwind(AssertUnwindSafe(|| -> Result<(), String> {
        match fam {
            1 => { // insert / push; src 0 raw 1 wrapper 2 typed
                let index = if s.g("push") == 1 { len } else { s.u("index") };
                m.insert(index, new_id);
                match s.g("src") {
                    0 => { let e = El::<N>::new(new_id);
                           let raw = unsafe { AnyValueRaw::new(NonNull::from(&e).cast::<u8>(), N, TypeId::of::<El<N>>()) };
                           std::mem::forget(e);
                           if s.g("push") == 1 { v.push(raw) } else { v.insert(index, raw) } }
                    1 => { let w = AnyValueWrapper::new(El::<N>::new(new_id)); if s.g("push") == 1 { v.push(w) } else { v.insert(index, w) } }
                    _ => { let mut t = v.downcast_mut::<El<N>>().unwrap(); if s.g("push") == 1 { t.push(El::new(new_id)) } else { t.insert(index, El::new(new_id)) } }
                }
            }
            2 => { // remove(0) / swap_remove(1) / pop(2); sink 1 drop 2 move(downcast) 3 forget
                let index = if s.g("op") == 2 { len - 1 } else { s.u("index") };
                let id = match s.g("op") { 0 => m.remove(index), 1 => m.swap_remove(index), _ => m.pop().unwrap() };
                macro_rules! sink { ($h:expr) => {{ let h = $h; match s.g("sink") {
                    1 => drop(h),
                    3 => { std::mem::forget(h); }
                    _ => { let e: El<N> = h.downcast::<El<N>>().unwrap(); if mask::<N>(e.id()) != mask::<N>(id) { return Err(format!("removed value is {} not {}", e.id(), id)); } drop(e); }
                }}}}
                match s.g("op") { 0 => sink!(v.remove(index)), 1 => sink!(v.swap_remove(index)), _ => sink!(v.pop().unwrap()) }
                if s.g("sink") == 3 { leaked_ok = true; m.truncate(index); }
            }
            3 | 4 => { // drain / splice with f fronts, b backs taken; how 1 drop 3 forget
                let (start, end, f, b, k) = (s.u("start"), s.u("end"), s.u("f"), s.u("b"), s.u("k"));
                let report = if s.m.contains_key("report") { s.u("report") } else { k };
                let repl: Vec<u32> = (0..k as u32).map(|i| new_id + i).collect();
                let mut yielded = vec![];
                if fam == 3 {
                    let mut d = v.drain(start..end);
                    for _ in 0..f { let e = d.next().unwrap(); yielded.push(e.downcast::<El<N>>().unwrap().id()); }
                    for _ in 0..b { let e = d.next_back().unwrap(); yielded.push(e.downcast::<El<N>>().unwrap().id()); }
                    if s.g("how") == 3 { std::mem::forget(d); leaked_ok = true; } else { drop(d); }
                } else {
                    struct It<const N: usize>(Vec<u32>, usize, usize);
                    impl<const N: usize> Iterator for It<N> { type Item = AnyValueWrapper<El<N>>;
                        fn next(&mut self) -> Option<Self::Item> { user_code(); if self.1 >= self.0.len() { None } else { self.1 += 1; self.2 = self.2.saturating_sub(1); Some(AnyValueWrapper::new(El::new(self.0[self.1 - 1]))) } } }
                    impl<const N: usize> ExactSizeIterator for It<N> { fn len(&self) -> usize { self.2 } }
                    let mut d = v.splice(start..end, It::<N>(repl.clone(), 0, report));
                    for _ in 0..f { let e = d.next().unwrap(); yielded.push(e.downcast::<El<N>>().unwrap().id()); }
                    for _ in 0..b { let e = d.next_back().unwrap(); yielded.push(e.downcast::<El<N>>().unwrap().id()); }
                    if s.g("how") == 3 { std::mem::forget(d); leaked_ok = true; } else { drop(d); }
                }
                let mut exp_y: Vec<u32> = m[start..start + f].to_vec();
                exp_y.extend(m[end - b..end].iter().rev());
                if maskv::<N>(&exp_y) != maskv::<N>(&yielded) { return Err(format!("yielded {:?} expected {:?}", yielded, exp_y)); }
                if s.g("how") == 3 { m.truncate(start); }
                else if report != k { leaked_ok = true; let kk = k.min(report); m.splice(start..end, repl[..kk].iter().cloned()); }
                else { m.splice(start..end, repl.iter().cloned()); }
            }
            5 => { v.clear(); m.clear(); }
            6 => { let c = v.clone(); let ci = ids::<N>(&c);
                   let exp: Vec<u32> = m.iter().map(|x| x + CLONE_OFF::<N>()).collect();
                   if maskv::<N>(&ci) != maskv::<N>(&exp) { return Err(format!("clone holds {:?} expected {:?}", ci, exp)); } }
            7 => { // move the j-th element of another vector in (op 0 remove 1 swap_remove 2 pop)
                let (mut o, mut mo) = fill::<N>(s.u("len_b"), s.u("cap_b"), 200);
                let j = if s.g("op") == 2 { mo.len() - 1 } else { s.u("j") };
                let index = if s.g("push") == 1 { len } else { s.u("index") };
                let id = match s.g("op") { 0 => mo.remove(j), 1 => mo.swap_remove(j), _ => mo.pop().unwrap() };
                m.insert(index, id);
                match s.g("op") { 0 => { let h = o.remove(j); if s.g("push") == 1 { v.push(h) } else { v.insert(index, h) } }
                                  1 => { let h = o.swap_remove(j); if s.g("push") == 1 { v.push(h) } else { v.insert(index, h) } }
                                  _ => { let h = o.pop().unwrap(); if s.g("push") == 1 { v.push(h) } else { v.insert(index, h) } } }
                if maskv::<N>(&ids::<N>(&o)) != maskv::<N>(&mo) { return Err(format!("source vector is {:?} expected {:?}", ids::<N>(&o), mo)); }
            }
            8 => { // lazy clone of element j of another vector
                let (o, mo) = fill::<N>(s.u("len_b"), s.u("cap_b"), 200);
                let j = s.u("j");
                let index = if s.g("push") == 1 { len } else { s.u("index") };
                m.insert(index, mo[j] + CLONE_OFF::<N>());
                { let e = o.at(j); if s.g("push") == 1 { v.push(e.lazy_clone()) } else { v.insert(index, e.lazy_clone()) } }
                if maskv::<N>(&ids::<N>(&o)) != maskv::<N>(&mo) { return Err(format!("source vector changed: {:?}", ids::<N>(&o))); }
            }
            9 => { let n = s.u("n"); let c0 = v.capacity(); if s.g("exact") == 1 { v.reserve_exact(n) } else { v.reserve(n) }
                   if v.capacity() < len + n { return Err(format!("capacity {} < len + n = {}", v.capacity(), len + n)); }
                   if c0 >= len + n && v.capacity() != c0 { return Err(format!("capacity changed {} -> {} although sufficient", c0, v.capacity())); } }
            10 => { let n = s.u("n"); let c0 = v.capacity(); if s.g("fit") == 1 { v.shrink_to_fit() } else { v.shrink_to(n) }
                    let bound = if s.g("fit") == 1 { len } else { len.max(n) };
                    if v.capacity() > c0 { return Err(format!("shrink grew capacity {} -> {}", c0, v.capacity())); }
                    if v.capacity() != c0.min(bound) { return Err(format!("capacity {} expected {}", v.capacity(), c0.min(bound))); } }
            _ => return Err("unknown scenario family".into()),
        }
        Ok(())
    }));
    let panicked = r.is_err();
    if let Ok(Err(e)) = r { return Err(e); }
    if panicked && !s.m.contains_key("panic_at") { return Err("the operation panicked".into()); }
    PANIC_AT.with(|p| *p.borrow_mut() = -1);
    let got = ids::<N>(&v);
    if !panicked {
        if maskv::<N>(&got) != maskv::<N>(&m) { return Err(format!("vector is {:?}, Vec gives {:?}", got, m)); }
        if v.len() != m.len() { return Err(format!("len {} expected {}", v.len(), m.len())); }
    } else {
        // after a user-code panic: every visible element appears once
        let mut seen = got.clone(); seen.sort(); let n0 = seen.len(); seen.dedup();
        if seen.len() != n0 { return Err(format!("after the panic an element is visible twice: {:?}", got)); }
    }
    if v.len() > v.capacity() { return Err("len > capacity".into()); }
    drop(v);
    // destructor accounting (N >= 4 only: ids are unique there)
    if N >= 4 {
        let bad: Vec<(u32, u32)> = DROPS.with(|d| d.borrow().iter().filter(|(_, c)| **c > 1).map(|(a, b)| (*a, *b)).collect());
        if !bad.is_empty() { return Err(format!("destroyed more than once (id, times): {:?}", bad)); }
        if !leaked_ok && !panicked {
            let dropped = DROPS.with(|d| d.borrow().len());
            let mut all: Vec<u32> = (1..=len as u32).collect();
            let missing: Vec<u32> = all.drain(..).filter(|i| DROPS.with(|d| !d.borrow().contains_key(i))).collect();
            if !missing.is_empty() { return Err(format!("never destroyed (leaked): {:?}", missing)); }
        }
    }
    Ok(())
}

fn dispatch(s: &Scn) -> Result<(), String> {
    match s.u("esz") { 1 => run::<1>(s), 2 => run::<2>(s), 3 => run::<3>(s), 12 => run::<12>(s), 16 => run::<16>(s),
                       24 => run::<24>(s), 160 => run::<160>(s), _ => run::<8>(s) }
}

fn search(base: &Scn) -> Option<(Scn, String)> {
    // exhaustive over the small instances of the family
    let fam = base.g("fam");
    let mut out = None;
    let mut try_one = |s: Scn| -> bool { if out.is_none() { if let Err(e) = dispatch(&s) { out = Some((s, e)); return true; } } false };
    for len in 0..=5usize { for cap in [len, len + 1, len + 3] {
        let mut s = base.clone(); s.m.insert("len".into(), len as i64); s.m.insert("cap".into(), cap as i64);
        match fam {
            1 => for index in 0..=len + 1 { let mut t = s.clone(); t.m.insert("index".into(), index as i64); if try_one(t) { return out; } },
            2 => for index in 0..=len { if index == len && (len == 0 || s.g("op") == 2) { continue; } let mut t = s.clone(); t.m.insert("index".into(), index as i64); if try_one(t) { return out; } },
            3 | 4 => for start in 0..=len { for end in start..=len { for f in 0..=(end - start) { for b in 0..=(end - start - f) {
                    for k in if fam == 4 { 0..=3usize } else { 0..=0usize } {
                        let mut t = s.clone();
                        for (n, x) in [("start", start), ("end", end), ("f", f), ("b", b), ("k", k)] { t.m.insert(n.into(), x as i64); }
                        if base.m.contains_key("report_delta") { t.m.insert("report".into(), (k as i64 + base.g("report_delta")).max(0)); }
                        if try_one(t) { return out; } } } } } },
            7 | 8 => for index in 0..=len { for len_b in 1..=3usize { for j in 0..len_b {
                    let mut t = s.clone(); for (n, x) in [("index", index), ("len_b", len_b), ("cap_b", len_b), ("j", j)] { t.m.insert(n.into(), x as i64); }
                    if try_one(t) { return out; } } } },
            9 | 10 => for n in 0..=8usize { let mut t = s.clone(); t.m.insert("n".into(), n as i64); if try_one(t) { return out; } },
            _ => { if try_one(s) { return out; } }
        }
    } }
    out
}

#[test]
fn vp_replay() {
    let scn = std::env::var("VP_SCN").unwrap_or_default();
    let s = Scn::parse(&scn);
    let prev = std::panic::take_hook();
    std::panic::set_hook(Box::new(|_| {}));
    let res = if std::env::var("VP_MODE").as_deref() == Ok("search") { search(&s) } else { dispatch(&s).err().map(|e| (s.clone(), e)) };
    std::panic::set_hook(prev);
    if let Some((s, e)) = res {
        let mut kv: Vec<String> = s.m.iter().map(|(k, v)| format!("{}={}", k, v)).collect(); kv.sort();
        println!("VP-REPRODUCED scenario: {}", kv.join(";"));
        println!("VP-REPRODUCED failure: {}", e);
        panic!("vp_replay: the real code disagrees with Vec: {}", e);
    }
    println!("VP-NOT-REPRODUCED");
}
