"""Native replay of a verifier counterexample on the real code (filled in below)."""
def native_replay(h, info, repo, scratch):
    return dict(reproduced=False, note='no native driver for this harness family yet')
def replay_file(info, repo):
    return 0
