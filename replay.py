"""Native replay of a verifier counterexample on the real code (public API, real memory).

The K2 contract harnesses run the real library code over a ghost backend, so Kani's own playback
cannot execute them natively.  Instead the counterexample's *inputs* (operation, element size, len,
capacity, index / range / consumption state ...) are decoded from the CBMC trace and handed to the
native driver replay/vp_replay.rs, which executes the same operation on the real code next to
std::vec::Vec.  If that exact scenario does not fail natively, the driver enumerates all small
scenarios of the same operation family (len <= 5) and reports the first one that does.
"""
import os, re, subprocess, shutil, json

ROOT = os.path.dirname(os.path.abspath(__file__))
ESZ = dict(Z0=0, E1=1, E2=2, E3=3, E8=8, E12=12, E16=16, E24=24, E160=160, D3=3, D8=8, D24=24, A32=32, A64=64)
OPS = dict(OP_REMOVE=0, OP_SWAP_REMOVE=1, OP_POP=2)
SINKS = dict(SINK_DROP=1, SINK_MOVE=2, SINK_FORGET=3, SINK_DOWNCAST=2)
SRCS = dict(SRC_RAW=0, SRC_WRAPPER=1, SRC_TYPED=2, SRC_SIZELESS=0)


def scenario_of(h):
    """static part of the scenario, from the harness instantiation"""
    c = h.call or ''
    m = re.match(r'(\w+)::<([\w, \[\];()]+)>\((.*)\)$', c) or re.match(r'(\w+)()\((.*)\)$', c)
    if not m:
        return None
    fn, ty, args = m.group(1), m.group(2).split(',')[0].strip(), [a.strip() for a in m.group(3).split(',')]
    s = dict(esz=ESZ.get(ty, 8))
    if ty == '0':
        s['esz'] = 0
    if s['esz'] == 0:
        s['esz'] = 8
        s['zst'] = 1     # zero-sized elements: the native driver compares lengths and counts only
    last = lambda a: a.split('::')[-1]
    if fn == 'insert_owned':
        s.update(fam='insert', src=SRCS[args[0]], push=int(args[1] == 'true'))
    elif fn == 'insert_from_other':
        s.update(fam='from_other', push=int(args[0] == 'true'), op=OPS[last(args[1])])
    elif fn in ('insert_lazy_clone', 'insert_lazy_clone_tgt'):
        s.update(fam='lazy', push=int(args[0] == 'true'))
    elif fn == 'remove_erased':
        s.update(fam='remove', op=OPS[last(args[0])], sink=SINKS[last(args[1])])
    elif fn in ('lazy_h', 'lazy_splice_h'):
        s.update(fam='lazyall')
    elif fn.startswith('heap_') or fn in ('with_capacity_h', 'new_in_h'):
        s.update(fam='heap')
    elif fn.startswith('copy_bytes_'):
        s.update(fam='insert', src=0, push=0)
    elif fn == 'clone_empty_h':
        s.update(fam='clone')
    elif fn in ('clone_fn_h', 'drop_closure_h'):
        s.update(fam='lazyall') if fn == 'clone_fn_h' else s.update(fam='clear')
    elif fn in ('k3_insert_h',):
        s.update(fam='insert', src=0, push=0, esz=8)
    elif fn in ('k3_remove_h',):
        s.update(fam='remove', op=0, sink=1, esz=8)
    elif fn == 'drain_hb':
        s.update(fam='drain', how=1)
    elif fn == 'drain_h':
        s.update(fam='drain', how=3 if args[2] == 'FORGET' else 1)
    elif fn == 'splice_h':
        s.update(fam='splice', how=3 if args[2] == 'FORGET' else 1)
        if args[5].isdigit() and int(args[5]) <= 3:
            s['k'] = int(args[5])
        if args[4] == 'true':
            s['misreport'] = 1
    elif fn == 'index_op_bad':
        op = int(args[0])
        if op == 2:
            s.update(fam='insert', src=1, push=0, oob=1)
        else:
            s.update(fam='remove', op=op, sink=1, oob=1)
    elif fn in ('into_range_ok_h', 'into_range_bad_h', 'range_op_bad'):
        s.update(fam='range')
    elif fn in ('admit_mismatch_raw', 'admit_mismatch_wrapper', 'splice_mismatch_h', 'downcast_table', 'downcast_handle'):
        s.update(fam='mismatch')
    elif fn in ('iter_h', 'range_iter_h'):
        s.update(fam='iter')
    elif fn == 'views_h' or fn in ('empty_h', 'dangling_h'):
        s.update(fam='views')
    elif fn == 'swap_h':
        s.update(fam='swap')
    elif fn in ('rawparts_h', 'rawparts_empty_h', 'heap_rawparts_h'):
        s.update(fam='rawparts')
    elif fn in ('heap_expand_h',):
        s.update(fam='growth')
    elif fn in ('stack_build_h', 'stackn_build_h', 'stackn_insufficient_h', 'fixed_overflow'):
        s.update(fam='stack')
    elif fn in ('get_h', 'get_typed_h', 'at_oob_h', 'none_ops'):
        s.update(fam='get')
    elif fn == 'remove_typed':
        s.update(fam='remove', op=OPS[last(args[0])], sink=2)
    elif fn == 'vecdrop_h':
        s.update(fam='clear')
    elif fn == 'clear_h':
        s.update(fam='clear')
    elif fn == 'clone_h':
        s.update(fam='clone')
    elif fn == 'reserve_h':
        s.update(fam='reserve', exact=int(args[0] == 'true') if args else 0)
    elif fn == 'shrink_h':
        s.update(fam='shrink', fit=int(args[0] == 'true') if args else 0)
    else:
        return None
    return s


def _run_driver(native, scn, mode):
    env = dict(os.environ, CARGO_NET_OFFLINE='true', VP_SCN=';'.join('%s=%s' % kv for kv in scn.items()), VP_MODE=mode)
    p = subprocess.run(['cargo', 'test', '--offline', '--test', 'vp_replay', '--', '--nocapture', '--test-threads', '1'],
                       cwd=native, env=env, stdout=subprocess.PIPE, stderr=subprocess.STDOUT, text=True, timeout=900)
    out = p.stdout
    m = re.search(r'VP-REPRODUCED scenario: (.*)\nVP-REPRODUCED failure: (.*)', out)
    if m:
        return dict(reproduced=True, scenario=m.group(1), failure=m.group(2))
    if 'VP-NOT-REPRODUCED' in out:
        return dict(reproduced=False)
    # crash of the real code (double free, segfault) is a reproduction too
    if re.search(r'signal: \d+|double free|SIGSEGV|SIGABRT|malloc', out):
        return dict(reproduced=True, scenario=env['VP_SCN'], failure='the test process crashed: ' + out[-400:])
    return dict(reproduced=False, error=out[-1500:])


def native_replay(h, info, repo, scratch):
    scn = scenario_of(h)
    if scn is None:
        return dict(reproduced=False, note='no native driver for this harness family')
    native = os.path.join(scratch, 'native')
    if not os.path.exists(native):
        subprocess.run(['rsync', '-a', '--exclude', 'target', '--exclude', '.git', repo + '/', native + '/'], check=True)
        shutil.copy(os.path.join(ROOT, 'replay', 'vp_replay.rs'), os.path.join(native, 'tests', 'vp_replay.rs'))
    res = dict(driver='replay/vp_replay.rs (real code, public API, Heap backend, std::vec::Vec as oracle)')
    ce = dict(info.get('counterexample_inputs') or {})
    if scn.pop('oob', None) and 'i' in ce:
        ce['index'] = ce['i']
    exact = dict(scn)
    ok_exact = bool(ce) and all(isinstance(v, int) and 0 <= v <= 4096 for k, v in ce.items() if k in ('len', 'start', 'end', 'f', 'b', 'len_b', 'j'))
    if ok_exact:
        for k in ('len', 'cap', 'index', 'start', 'end', 'f', 'b', 'k', 'len_b', 'cap_b', 'j', 'report', 'n'):
            if k in ce and k not in ('k',) or (k == 'k' and 'k' not in exact and k in ce):
                exact[k] = min(ce[k], 1 << 16) if k in ('cap', 'cap_b') else ce[k]
        r = _run_driver(native, exact, 'exact')
        res['exact_scenario'] = exact
        res['exact'] = r
        if r.get('reproduced'):
            res.update(reproduced=True, scenario=r['scenario'], failure=r['failure'], how='verifier counterexample replayed on the real code')
            return res
    variants = [scn]
    if h.name.startswith(('clone_fixed', 'splice_fixed', 'insert_raw_fixed', 'push_raw_fixed', 'insert_typed_fixed')):
        variants.append(dict(fam='stack', esz=8))
    if scn.get('fam') in ('clear', 'remove', 'drain', 'splice', 'clone', 'insert', 'lazy'):
        # user code (Drop / Clone / replacement iterator) panicking at its k-th invocation
        variants += [dict(scn, panic_at=k) for k in (1, 2, 3)]
    if scn.get('fam') in ('clear', 'remove', 'drain', 'splice', 'insert') and not scn.get('zst'):
        # the same operation on an element type without drop glue (destructor function absent)
        variants.append(dict(scn, nodrop=1))
    if scn.get('misreport'):
        variants = [dict(scn, report_delta=d) for d in (-1, 1, -2, 2)]
    for v in variants:
        r = _run_driver(native, v, 'search')
        if r.get('reproduced'):
            res.update(reproduced=True, scenario=r['scenario'], failure=r['failure'],
                       how='counterexample values not directly replayable; exhaustive native search over small scenarios of the same operation family')
            return res
        res['search'] = r
    res['reproduced'] = False
    return res


def replay_file(info, repo):
    """./check --replay <file>: re-run the native scenario stored in a replay file against /repo"""
    nr = info.get('native_replay') or {}
    scn_txt = nr.get('scenario')
    if not scn_txt:
        print('replay file has no native scenario (the violation was reported with no-failing-input-found);')
        print('failed obligation(s):', [f['obligation'] for f in info.get('failed_obligations', [])])
        return 1
    import tempfile
    d = tempfile.mkdtemp(prefix='anyvec.replay.', dir=os.environ.get('VERIF_SCRATCH', '/var/tmp'))
    try:
        native = os.path.join(d, 'native')
        subprocess.run(['rsync', '-a', '--exclude', 'target', '--exclude', '.git', repo + '/', native + '/'], check=True)
        shutil.copy(os.path.join(ROOT, 'replay', 'vp_replay.rs'), os.path.join(native, 'tests', 'vp_replay.rs'))
        scn = dict(kv.split('=') for kv in scn_txt.split(';') if '=' in kv)
        r = _run_driver(native, scn, 'exact')
        print(json.dumps(r, indent=1))
        return 1 if r.get('reproduced') else 0
    finally:
        shutil.rmtree(d, ignore_errors=True)
