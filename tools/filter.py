import sys,re
txt=sys.stdin.read()
# print compile errors
if 'error' in txt and 'VERIFICATION' not in txt:
    out=[]
    keep=False
    for l in txt.splitlines():
        if l.startswith('error'): keep=True
        elif l.startswith('warning'): keep=False
        if keep: out.append(l)
    print('\n'.join(out[:150])); sys.exit(1)
blocks=re.split(r'\n(?=Checking harness )',txt)
for b in blocks:
    m=re.match(r'Checking harness (\S+)',b)
    if not m: continue
    name=m.group(1)
    checks=re.findall(r'Check \d+: (.+)\n\s+- Status: (\S+)\n\s+- Description: "(.*)"\n\s+- Location: (.*)',b)
    fails=[c for c in checks if c[1] not in ('SUCCESS','SATISFIED','UNREACHABLE')]
    summ=re.findall(r'\*\* .*|VERIFICATION:- \w+|Verification Time: .*',b)
    print('==',name,len(checks),'checks;',' | '.join(summ))
    for c in fails[:30]:
        print('   ',c[1],c[0],'::',c[2],'@',c[3][-90:])
    for c in checks:
        if c[1] in ('UNSATISFIED','UNREACHABLE') and 'cover' in c[0]:
            print('    COVER',c[1],c[2])
m=re.search(r'Complete - .*',txt)
print(m.group(0) if m else txt[-1500:])
