#!/bin/bash
# tools/seed_eval.sh <PID> <variant> [tier] [extra check props...]
# 1. confirm in the agent's worktree: suite green with the patch, demo fails with / passes without
# 2. run ./check for the property (and extra properties) against the patched tree
# 3. store under /verif/seeded/<PID>-<variant>/
P=$1; V=$2; TIER=${3:-quick}; shift; shift; shift
MUT=${MUT:-/tmp/mut}; SV=${SV:-$V}   # SV: variant letter used for the stored id (round 2: a->c, b->d)
W=$MUT/$P; O=$MUT/out/$P/$V; D=/verif/seeded/$P-$SV
mkdir -p $D
cd $W && git checkout -q -- . && rm -f tests/seeded_demo.rs
FEAT=""; [ "$P" = "C19" ] && FEAT="--no-default-features"
touch src/lib.rs
cp $O/demo.rs tests/seeded_demo.rs
clean=$(cargo test --offline $FEAT --test seeded_demo 2>&1 | grep -E "^test result|error\[|could not compile" | head -3 | tr '\n' ' ')
if ! git apply $O/patch.diff; then echo "$P-$V: patch does not apply"; exit 3; fi
touch src/lib.rs
mut=$(cargo test --offline $FEAT --test seeded_demo 2>&1 | grep -E "^test result|error\[|could not compile|signal" | head -3 | tr '\n' ' ')
rm -f tests/seeded_demo.rs
suite=$(cargo test --offline 2>&1 | grep -E "^test result" | awk '{s+=$4; f+=$6} END {print s" passed "f" failed"}')
echo "$P-$SV demo(clean): $clean | demo(patched): $mut | suite(patched): $suite"
cd /verif
res=""
for Q in $P "$@"; do
  VERIF_REPO=$W VERIF_EVIDENCE_DIR=/var/tmp/avx/seed_ev ./check $Q --tier $TIER > /var/tmp/avx/seed_$P-$SV-$Q.log 2>&1; rc=$?
  caught=$(grep -E "^VIOLATION|^UNDECIDED|^OK" /var/tmp/avx/seed_$P-$SV-$Q.log | head -4 | tr '\n' ';')
  obl=$(grep -E " violation " /var/tmp/avx/seed_$P-$SV-$Q.log | awk '{print $1}' | tr '\n' ',')
  echo "   check $Q ($TIER): rc=$rc harnesses=[$obl] $caught" | cut -c1-400
  res="$res $Q:$rc"
done
cp $O/patch.diff $O/demo.rs $D/ 2>/dev/null; cp $O/notes.md $D/notes.md 2>/dev/null
cd $W && git checkout -q -- . 
echo "$P-$SV RESULT$res" >> /var/tmp/avx/seed_results.txt
