#!/bin/bash
# dev helper: sync /repo + /verif/kani into the scratch copy and run harness(es), print failures + summary
# usage: tools/dev.sh [-f "--no-default-features"] harness1 [harness2..]
S=/var/tmp/avx/repo
mkdir -p $S
rsync -a --delete --exclude target --exclude .git ${SRC:-/repo}/ $S/ --exclude src/kani_verif
rsync -a --delete /verif/kani/ $S/src/kani_verif/
cp /verif/contracts/post.rs $S/src/kani_verif/post.rs
python3 -c "import sys; sys.path.insert(0,'/verif'); import checks; checks.write_instances('$S/src/kani_verif', checks.ALL)"
cd $S
EXTRA=""
if [ "$1" = "-f" ]; then EXTRA="$2"; shift; shift; fi
H=""
for h in "$@"; do H="$H --harness $h"; done
CARGO_NET_OFFLINE=true timeout ${TMO:-900} cargo kani -Z mem-predicates -Z stubbing -Z loop-contracts $EXTRA $H 2>&1 | python3 /verif/tools/filter.py
