#!/bin/bash
# tools/run_all.sh [quick|thorough] [extra args]: every claimed property in turn; summary at the end
T=${1:-quick}; shift
cd /verif
for p in $(python3 -c "import checks; print(' '.join(sorted(checks.PROPS)))"); do
  s=$(date +%s)
  ./check $p --tier $T "$@" > /var/tmp/avx/run_$p.log 2>&1; rc=$?
  echo "$p rc=$rc $(( $(date +%s) - s ))s $(tail -1 /var/tmp/avx/run_$p.log | cut -c1-150)"
done
