#!/usr/bin/env python3
"""Regenerates MANIFEST.json from checks.py (claimed properties) + the fixed not-applicable list."""
import json, sys, os
ROOT = os.path.dirname(os.path.dirname(os.path.abspath(__file__)))
sys.path.insert(0, ROOT)
import checks as REG
props = [json.loads(l)['id'] for l in open(os.path.join(ROOT, 'properties.jsonl'))]
NA = {
 'C16': 'The property is that certain programs fail borrow checking. Kani and Verus only receive programs that already type- and borrow-check; a compile-time rejection is not a pre/postcondition or invariant of any function, so no obligation can be generated (DESIGN.md C16).',
}
checks = []
for pid in props:
    if pid in REG.PROPS:
        P = REG.PROPS[pid]
        checks.append(dict(
            property_id=pid,
            quick_cmd='./check %s --tier quick' % pid,
            thorough_cmd='./check %s --tier thorough' % pid,
            evidence_file='/verif/evidence/%s.json' % pid,
            replay_cmd_template='./check --replay {path}',
            engine='kani-contracts',
            level_claimed=dict(category=P['level'], text=P.get('level_text', P.get('explanation', '')), design_ref='DESIGN.md §5 ' + pid),
            level_note=P.get('level_note', 'Trusted: Kani/CBMC/rustc, Verus/Z3; core::ptr::{copy,copy_nonoverlapping} as memmove/memcpy; GlobalAlloc contract; Rust ownership rules for safe callers. Domain: symbolic len <= cap <= 2^20 per vector, every usize index/range; element sizes are instantiated, not quantified: quick tier {0,1,2,8,16}, thorough tier adds {3,12,24,160}. The storage backend of the operation contracts is a ghost relocating backend and the memory primitives are replaced by their contracts (copy_bytes proved equivalent to memmove in place; ptr::copy/copy_nonoverlapping trusted; element destructor/clone loops checked separately with a stated bound). Bounded stand-ins are listed separately in the evidence and never counted as proved. exit 2 = undecided.'),
            technique=P.get('technique', 'contract-based deductive verification of the real code: Kani/CBMC contract harnesses (assume pre, call real function, assert post over full symbolic domain) over contract stubs of the memory primitives + Verus lemmas over the contracts'),
        ))
na = [dict(property_id=p, reason=NA.get(p, 'check not built yet (framework under construction); see DESIGN.md §5')) for p in props if p not in REG.PROPS]
hooks_commits = [l.strip() for l in open(os.path.join(ROOT, 'hooks_commits.txt'))] if os.path.exists(os.path.join(ROOT, 'hooks_commits.txt')) else []
m = dict(version=1, setup_cmd='./setup.sh',
         hooks=dict(guard='cfg(kani)', enable='cargo kani sets cfg(kani); ./check copies /verif/kani into src/kani_verif of a scratch copy of /repo working tree',
                    baseline_off_cmd='cd /repo && cargo nextest run --workspace --no-fail-fast --offline || cargo test --workspace --no-fail-fast --offline',
                    source_commits=hooks_commits, add_only=True),
         engines=[dict(name='kani-contracts', path='/verif/check', serves_properties=sorted(REG.PROPS), kind_free_text='Kani 0.68/CBMC 6.11 contract harnesses on the real crate (in-crate cfg(kani) module) + Verus lemmas over the contract predicates (contracts/post.rs)')],
         checks=checks, not_applicable=na,
         notes='See DESIGN.md. exit 2 of ./check = undecided (never a violation). Known findings: known_findings.json (open: D15 and D16 under C03, printed as KNOWN-FINDING by ./check C03; all others fixed: entries with their /repo commit).')
json.dump(m, open(os.path.join(ROOT, 'MANIFEST.json'), 'w'), indent=1)
print('claimed', [c['property_id'] for c in checks], 'n/a', [n['property_id'] for n in na])
