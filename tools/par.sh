#!/bin/bash
# run many harnesses in parallel (one cargo kani per harness after a shared build); usage: tools/par.sh J h1 h2 ...
J=$1; shift
S=/var/tmp/avx/repo
rsync -a --delete --exclude target --exclude .git ${SRC:-/repo}/ $S/ --exclude src/kani_verif
rsync -a --delete /verif/kani/ $S/src/kani_verif/
cp /verif/contracts/post.rs $S/src/kani_verif/post.rs
python3 -c "import sys; sys.path.insert(0,'/verif'); import checks; checks.write_instances('$S/src/kani_verif', checks.ALL)"
cd $S
if ! CARGO_NET_OFFLINE=true cargo kani -Z mem-predicates -Z stubbing -Z loop-contracts --only-codegen > /var/tmp/avx/build.log 2>&1; then grep -E "^error" -A12 /var/tmp/avx/build.log | head -60; exit 1; fi
printf "%s\n" "$@" | xargs -P $J -I{} bash -c 'cd '$S' && CARGO_NET_OFFLINE=true timeout ${TMO:-1200} cargo kani -Z mem-predicates -Z stubbing -Z loop-contracts --harness {} 2>&1 | python3 /verif/tools/filter.py | grep -v "^Complete"'
