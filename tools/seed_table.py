#!/usr/bin/env python3
"""Rewrites DESIGN.md §11.7 from /verif/seeded/*/meta.json."""
import json, glob, os, re
LATE = {
 'C03-a': 'no instance dropped a handle of an element type without drop glue',
 'C08-b': 'the bounded clone_fn harness had no zero-sized instance',
 'C09-a': 'no harness consumed a lazy clone through splice',
 'C09-b': 'no lazy-clone harness used a zero-sized element with a removal handle',
 'C19-a': 'the over-aligned Stack harnesses were not in the no-default-features list',
 'C19-b': 'the copy_bytes contract was not in the no-default-features list',
 'C10-c': 'no expected-panic harness for reserve / reserve_exact with len + n not representable',
 'C06-c': 'the length of a vector under construction inside clone() was not observable at the clone call-out; added (offset_of from the storage field) together with the obligation "a clone is written only into a slot that is not visible"',
 'C08-c': 'no clone instance used an element type without drop glue (drop_fn == None)',
 'C03-d': 'the zero-sized instance of the bounded destructor-loop harness was thorough-tier only',
 'C05-c': 'the clone harness only built targets with capacity 0 or the source capacity',
 'C11-f': 'the obligation "length untouched when a fixed-capacity backend refuses to grow" was added for this round, but the runner accepted ANY failure located in the refusing function as the expected panic and so hid it: the runner now never treats a contract assertion of the harness module as an expected failure',
 'C18-f': 'state at a library panic was not observable (Kani has no unwinding): core\'s unwrap/expect panic entry points are now replaced by observing twins that assert the HeapMem still describes the allocation it owns',
 'C03-g': 'no harness called an overridable provided method of the range iterators; the mutant adds O(1) `nth`/`nth_back` overrides that skip without destroying. Added the nth / nth_back contract (k1_handles::range_nth_h: skipped elements are destroyed, each once)',
 'C11-m': 'MISSED when first run: a `Clone::clone_from` override that reuses storage only when the element TYPES match reserves old_len + source_len; the clone_from harness (written for round 6) used two different element types. Added an instance with equal types (clone_from_same_stack)',
 'C04-m': 'first run: UNDECIDED (inventory guard; the harness did not fail): a `clone_from` override that reuses storage when the element LAYOUTS match keeps the stale type id; the clone_from harness used types of different alignment. Added an instance with two types of equal layout (clone_from_samelayout_stack)',
 'C09-m': 'predicted from the agent\'s summary: same shape as C04-m (stale clone function); caught by clone_from_samelayout_stack, which also serves C09',
 'C12-m': 'predicted from the agent\'s summary: `clone_from` reusing storage built for a less aligned type; the clone_from harness now uses destination alignment 1 / source alignment 8 and asserts the reported element layout and the storage alignment',
 'C15-m': 'MISSED when first run: the `Send` impl of the raw-typed-pointer iterator (behind `AnyVecTyped::drain/splice`) dropped its `T: Send` requirement; the judgement table had rows for the erased iterators and the typed views only. Added rows for `iter::Iter<AnyVecRawPtr<T, M>>` and the typed Drain / Splice wrappers (t_handles2)',
 'C15-n': 'MISSED when first run: removal handles of vectors declared without `Cloneable` gained `AnyValueCloneable`; the table had no clone-capability rows for handles. Added `[Element / Pop / Remove / SwapRemove: AnyValueCloneable] == (constraints include Cloneable)` for every constraint set and backend',
 'C12-n': 'first run: UNDECIDED (inventory guard): the inline backends stopped refusing over-aligned ZERO-SIZED element types; there was no refusal harness at all (only accepted alignments were instantiated). Added stack(n)_overaligned_{za128,a128}: build cannot return',
 'C07-m': 'MISSED when first run: the forget instances of remove / swap_remove on a zero-sized element type were thorough-tier only (the mutant lowers the length to 0 instead of the index for ZSTs). Moved to the quick tier',
 'C11-n': 'predicted from the agent\'s summary: `StackNMem` overrides `Mem::expand` and grows into its slack bytes; added inline_overflow_h (push beyond a real inline backend with slack cannot return)',
 'C13-m': 'caught by inline_views_stackn_2_24_u32 (added in round 5 for the same class: a provided `Mem` method overridden by `StackNMem`)',
 'C14-n': 'predicted from the agent\'s summary: `Iter::clone_from` override; iter_h now also clones into an existing iterator in a different state',
 'C17-n': 'predicted from the agent\'s summary: a provided `MemRawParts` method overridden by `HeapMem` releases the buffer of an empty vector; added k1_heap::heap_vec_rawparts_h (raw-parts round trip of a real heap-backed vector against the allocator model)',
 'C01-m': 'predicted from the agent\'s summary: `HeapMem::resize` replaced realloc by alloc + short copy + dealloc for over-aligned types; the allocator-protocol harness reports it (two live blocks) but served C18/C10/C12 only; it now serves C01 and C05 as well',
 'C19-k': 'first run: UNDECIDED (the function-inventory guard saw the new helper; no harness failed): the no-alloc build computes the `Stack` capacity with a shift, wrong only for element sizes that are not a power of two, and the no-default-features copies had only 8-byte instances in the quick tier. Added one no-default-features copy per harness family, incl. stack_build_e3_9 / e24_48',
 'C19-l': 'MISSED when first run: whole-vector clone memcpys elements without drop glue in the no-alloc build; no clone harness of a type without drop glue was copied to the no-default-features build. Same addition (clone_nodrop_e8_na)',
 'C06-k': 'MISSED when first run: `insert_unchecked` lowers the length only on the type-erased branch; every lazy-clone harness used an erased source, so the known-type branch never ran user code. Added a user-implemented cloneable source with `type Type = T` (k2_insert::KnownSrc, insert/push_lazy_clone_known_e8)',
 'C10-k': 'first run: UNDECIDED (inventory guard): a new provided `MemResizable::shrink_to_fit(used)` that `HeapMem` overrides to skip small shrinks; the capacity contracts ran on the ghost backend only. Added k1_heap::heap_vec_capacity_h: shrink_to / shrink_to_fit / reserve / reserve_exact of a REAL heap-backed vector against the allocator protocol',
 'C10-l': 'MISSED when first run under C10: clone() on a backend whose fresh storage is non-empty but too small ends with len > capacity; the clone contract caught it, but served C08/C03/C05/C06 only. "len <= capacity always" is now served by a clone / insert / splice representative',
 'C05-l': 'MISSED when first run under C05: the replacement loop of `Splice::drop` writes once before testing the bound, which shows only for an iterator reporting length 0; the misreporting-iterator contract caught it but served C06 only. The misreporting-iterator harness now serves C05 explicitly (and, in the thorough tier, every operation-contract harness serves C03, C05 and C06)',
 'C18-k': 'predicted from the agent\'s summary (before running): the new `heap_expand_exact` harness had its zero-sized instance in the thorough tier only; moved to quick',
 'C08-k': 'predicted from the agent\'s summary: nothing called `Clone::clone_from`. Added k1_loops::clone_from_h on real memory (type, layout, values, clone function taken over, capacity boundary)',
 'C04-j': 'MISSED when first run: a new provided `Mem::element_size()` that only `StackNMem` overrides (SIZE / N) feeds `ElementPointer::size()`; the operation contracts run on the ghost backend, which takes the default. Added k1_views::inline_views_h: views and handle reports on the REAL Stack / StackN backends instantiated with slack bytes',
 'C12-i': 'MISSED when first run: same shape as C04-j (`Mem::size_bytes()` overridden by `StackMem` to SIZE, used by `spare_bytes_mut`). Caught by the same new harness (inline_views_stack10_u32)',
 'C12-j': 'MISSED when first run: `HeapMem` overrides the provided `MemResizable::expand_exact` with an align-1 first allocation; the heap harnesses called `expand` / `resize` only. Added k1_heap::heap_expand_exact_h (allocator protocol: element layout, exact growth)',
 'C11-i': 'MISSED when first run: the typed `AnyVecTyped::splice` pre-reserves against the full length; only the erased splice had a fixed-capacity instance. Added `splice_typed_api_fixed_e8` (result fits => capacity untouched, no refusal)',
 'C11-j': 'MISSED when first run: `Splice::drop` restores the full length around `reserve`, so a refusing fixed-capacity backend unwinds with yielded elements visible; there was no splice-beyond-capacity harness. Added `splice_fixed_overflow_e8` and the panic-view invariant at every fixed-capacity refusal (ghost `expand`)',
 'C09-i': 'MISSED when first run: `LazyClone::move_into::<KnownType>` copies bytes when the type is known and has no drop glue (the `downcast::<T>()` path); the lazy harness consumed with `move_into::<Unknown>` only. Depth-2 instances now consume with the known type',
 'C13-g': 'MISSED when first run (quick check of C13 exited 0): the removal-handle contract checked only the read view (`as_bytes_ptr`, size, type id); the mutant reroutes `as_bytes_mut_ptr` of the pop handle to element len-2. Added: mutable access and the mutable byte view of every removal handle address exactly the removed element (k2_remove::check_handle), and the drop-sink removal harnesses now also serve C13',
 'C14-h': 'no harness called a provided Iterator method of the reference iterators; written while the agent was still running, after predicting the miss from the task I had given it: k1_handles::iter_provided_h pins count / last / nth / nth_back / rev / fold against their next()-based definitions (bounded: 2 items)',
 'C01-c': 'the copy_bytes contract harness had no unwind bound, so a new loop without invariant made it run into the time limit (exit 2) instead of failing; it now has one, and a real-memory insert harness on 1-byte elements (k3_insert_u8) was added',
}
rows = []
n_late = 0
for d in sorted(glob.glob('/verif/seeded/C*-*')):
    if not os.path.exists(d + '/meta.json'): continue
    m = json.load(open(d + '/meta.json'))
    sid = m['id']
    diff = open(d + '/patch.diff').read()
    files = sorted(set(re.findall(r'^\+\+\+ b/(\S+)', diff, re.M)))
    hs = sorted(set(h for c in m['checks'] for h in c['harnesses_reporting']))
    obl = ''
    for c in m['checks']:
        for o in c['details']:
            if o['obligations']:
                obl = o['obligations'][0]; break
        if obl: break
    rep = any(o['native_replay_reproduced'] for c in m['checks'] for o in c['details'])
    caught = any(c['caught'] for c in m['checks'])
    note = ''
    if sid in LATE:
        n_late += 1
        note = ' strengthened first: ' + LATE[sid]
    rows.append('| %s | %s | %s | %s | %s | %s |%s' % (sid, ', '.join(files), 'yes' if caught else '**no**', ', '.join(hs[:3]) + (' …' if len(hs) > 3 else ''),
                                                     obl[:100].replace('|', '/'), 'yes' if rep else 'no', note))
n = len(rows)
txt = '''
### 11.7 Seeded breaking changes (independent sub-agents) and which check catches them

Fresh sub-agents were each given only the text of one property and a scratch worktree of /repo (nothing from
/verif) and asked for two changes that break the property, still compile and pass the 44 tests, and need
something specific to manifest. Round 1: 18 agents (one per claimed property); rounds 2 to 7: 10 + 6 + 8 + 6 + 8 + 10 agents, told only which
*functions* earlier rounds had already used (rounds 4 and 5 were asked for two cooperating sites, secondary paths - mutable / typed /
provided-method twins - or multi-step histories). All %d changes
were confirmed by me in the scratch worktree (`tools/seed_eval.sh`: suite green with the patch, demo fails with /
passes without) and are kept under `/verif/seeded/<id>/` (`patch.diff`, `demo.rs`, `notes.md`, `meta.json`; ids
`-a/-b` round 1, `-c/-d` round 2, `-e/-f` round 3, `-g/-h` round 4, `-i/-j` round 5, `-k/-l` round 6, `-m/-n` round 7). `seeded/harmless-1` is the opposite: a behaviour-preserving refactor that must
NOT be reported.

Every seeded change is reported as a VIOLATION by the **quick** check of its property. Honest accounting: %d of
the %d were predicted (before running them) to be missed, or (C13-g, C03-g, C11-f; six of the twelve round-5 changes: C04-j, C09-i, C11-i, C11-j, C12-i, C12-j; six of the sixteen
round-6 changes: C05-l, C06-k, C10-k, C10-l, C19-k, C19-l; six of the twenty round-7 changes: C04-m, C07-m, C11-m, C12-n, C15-m, C15-n)
were actually missed (exit 0, or exit 2 from the function-inventory guard) when first run,
by the checks as they stood when the change arrived; for
those the registry / harness was strengthened first — the table says how. What the misses had in common: the
*contract* existed, but no *instance* exercised the configuration (element type without drop glue, zero-sized
type, a different consumer of a lazy clone, the no-default-features build, an overflowing argument), or a state of
a vector under construction inside the library was not observable to the ghost. Rounds 4 and 5 (which asked for
*secondary paths*) exposed a structural blind spot as well: the operation contracts run on the ghost backend and
through the primary entry point, so (a) a new provided trait method that only one *built-in* backend overrides, (b)
the typed / mutable / known-type twin of a checked function and (c) provided `Iterator` methods overridden in the
library were outside every contract. Each now has at least one harness (real inline backends with slack,
`HeapMem::expand_exact`, typed splice on fixed storage, mutable handle views, known-type lazy consumption, pinned
provided iterator methods), but the class is open-ended: a *new* function is under contract only if some
harness reaches it, and `./check` has no way to notice a new public or overriding function that none reaches.

| id | files changed | caught | reporting harnesses (quick tier) | first failed obligation | native replay reproduced | |
|---|---|---|---|---|---|---|
''' % (n, n_late, n) + '\n'.join(rows) + '''

"native replay reproduced = no" means the VIOLATION line ends with `no-failing-input-found`: the replay file names the
failed obligation and carries the verifier output and the decoded counterexample, but the failure is not observable
through the public API without instrumentation (over-read inside capacity, type-level judgement) or the native driver
has no scenario for it.
'''
s = open('/verif/DESIGN.md').read()
if '### 11.7 Seeded' in s:
    s = s[:s.index('\n### 11.7 Seeded')]
open('/verif/DESIGN.md', 'w').write(s + txt)
print(n, 'rows', n_late, 'late')
