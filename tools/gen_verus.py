#!/usr/bin/env python3
"""gen_verus.py <out.rs> <lemma files...>: translate contracts/post.rs into Verus spec functions
(`pub fn` -> `pub open spec fn`, `usize` -> `int`) and append the hand-written lemma files."""
import sys, re, os
ROOT = os.path.dirname(os.path.dirname(os.path.abspath(__file__)))
def translate(src):
    out = []
    for m in re.finditer(r'pub fn (\w+)\(([^)]*)\) -> (\w+) \{(.*?)\n\}|pub fn (\w+)\(([^)]*)\) -> (\w+) \{([^\n]*)\}', src, re.S):
        name, args, ret, body = (m.group(1), m.group(2), m.group(3), m.group(4)) if m.group(1) else (m.group(5), m.group(6), m.group(7), m.group(8))
        args = args.replace('usize', 'int')
        ret = ret.replace('usize', 'int')
        out.append('pub open spec fn %s(%s) -> %s {%s\n}\n' % (name, args, ret, body))
    return '\n'.join(out)
def main():
    out = sys.argv[1]
    post = open(os.path.join(ROOT, 'contracts', 'post.rs')).read()
    body = translate(post)
    lem = '\n'.join(open(f if os.path.isabs(f) else os.path.join(ROOT, f)).read() for f in sys.argv[2:])
    open(out, 'w').write('use vstd::prelude::*;\nverus! {\n// ---- generated from contracts/post.rs ----\n' + body + '\n// ---- lemmas ----\n' + lem + '\n} // verus!\nfn main() {}\n')
if __name__ == '__main__':
    main()
