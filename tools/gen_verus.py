#!/usr/bin/env python3
"""gen_verus.py <out.rs> <lemma files...>: translate contracts/post.rs into Verus spec functions
(`pub fn` -> `pub open spec fn`, `usize` -> `int`) and append the hand-written lemma files."""
import sys, re, os
ROOT = os.path.dirname(os.path.dirname(os.path.abspath(__file__)))
def translate(src):
    """line based: a function is either one line `pub fn ..{ .. }` or runs until a line that is just `}`"""
    out = []
    lines = src.split('\n')
    i = 0
    while i < len(lines):
        l = lines[i]
        if l.startswith('pub fn '):
            chunk = [l]
            if not l.rstrip().endswith('}') or l.count('{') != l.count('}'):
                while lines[i].strip() != '}':
                    i += 1
                    chunk.append(lines[i])
            text = '\n'.join(chunk)
            m = re.match(r'pub fn (\w+)\(([^)]*)\) -> (\w+) \{(.*)\}\s*$', text, re.S)
            name, args, ret, body = m.groups()
            out.append('pub open spec fn %s(%s) -> %s {%s}\n' % (name, args.replace('usize', 'int'), ret.replace('usize', 'int'), body))
        i += 1
    return '\n'.join(out)


def main():
    out = sys.argv[1]
    post = open(os.path.join(ROOT, 'contracts', 'post.rs')).read()
    body = translate(post)
    lem = '\n'.join(open(f if os.path.isabs(f) else os.path.join(ROOT, f)).read() for f in sys.argv[2:])
    open(out, 'w').write('use vstd::prelude::*;\nverus! {\n// ---- generated from contracts/post.rs ----\n' + body + '\n// ---- lemmas ----\n' + lem + '\n} // verus!\nfn main() {}\n')
if __name__ == '__main__':
    main()
