#!/usr/bin/env python3
"""Builds /verif/seeded/<id>/meta.json from the evaluation logs (tools/seed_eval.sh)."""
import os, re, json, glob, sys
ROOT='/verif/seeded'
rows=[]
ONLY=set(sys.argv[1:])  # optional: only these ids (earlier rounds' logs / replays may be gone)
for d in sorted(glob.glob(ROOT+'/C*-*')):
    sid=os.path.basename(d); pid,var=sid.split('-')
    if ONLY and sid not in ONLY: continue
    notes=open(d+'/notes.md').read() if os.path.exists(d+'/notes.md') else ''
    meta=dict(id=sid, breaks_property=pid, origin='independent sub-agent given only the property text and a scratch worktree of /repo',
              needs_to_manifest=' '.join(notes.split('\n\n')[1:3])[:900] if notes else '',
              confirmed_by_me=dict(), checks=[])
    # confirmation line from seed_all.log
    for l in open('/var/tmp/avx/seed_cat.log'):
        if l.startswith(sid+' demo'):
            meta['confirmed_by_me']=dict(command='tools/seed_eval.sh %s %s (in the scratch worktree: git apply patch.diff; cargo test --offline --test seeded_demo; cargo test --offline)'%(pid,var), outcome=l.strip()[:600])
    for lg in sorted(glob.glob('/var/tmp/avx/seed_%s-*.log'%sid)):
        q=lg.rsplit('-',1)[1][:-4]
        txt=open(lg).read()
        viol=re.findall(r'^  (\S+)\s+violation ', txt, re.M)
        und=re.findall(r'^  (\S+)\s+undecided ', txt, re.M)
        vlines=re.findall(r'^VIOLATION property=\S+ replay=(\S+)( no-failing-input-found)?', txt, re.M)
        obls=[]
        for rp,nf in vlines:
            try:
                r=json.load(open(rp)); obls.append(dict(harness=r['harness'].split('::')[-1], obligations=[o['obligation'] for o in r['failed_obligations']][:4],
                     counterexample=r.get('counterexample_inputs'), native_replay_reproduced=bool((r.get('native_replay') or {}).get('reproduced')),
                     native_scenario=(r.get('native_replay') or {}).get('scenario'), native_failure=(r.get('native_replay') or {}).get('failure')))
            except Exception as e: pass
        tier=re.search(r'\[%s (\w+)\]'%q, txt)
        meta['checks'].append(dict(check='./check %s --tier %s'%(q, tier.group(1) if tier else 'quick'), caught=bool(viol), harnesses_reporting=viol, undecided=und, details=obls))
    json.dump(meta, open(d+'/meta.json','w'), indent=1)
    rows.append((sid, any(c['caught'] for c in meta['checks']), ','.join(sorted(set(h for c in meta['checks'] for h in c['harnesses_reporting'])))[:90],
                 any(o['native_replay_reproduced'] for c in meta['checks'] for o in c['details'])))
for r in rows: print('%-7s caught=%-5s replayed=%-5s %s'%(r[0],r[1],r[3],r[2]))
