// Contract predicates (post-conditions at a witness), single source for
//   * the Kani contract harnesses  (included verbatim as `kani_verif::post`)
//   * the Verus lemmas             (translated mechanically: `pub fn` -> `pub open spec fn`,
//                                   `usize` -> `int`; see /verif/tools/gen_verus.py)
// Style rules (enforced by the translator): every function is `pub fn name(args: usize|bool) -> usize|bool`
// with a body that is ONE expression built from if/else, comparison, + - * / %, && || !, constants
// and calls to other functions of this file.  Kani evaluates these with overflow checks on, so the
// machine reading and the mathematical reading coincide on every passing harness.

// ---- what became of a value (its "fate") ---------------------------------------------------
// 0 = still in the vector, at position `pos`
// 1 = destroyed by the vector (exactly once)
// 2 = handed out to the caller (exactly once; the caller now owns it)
// 3 = leaked (in no vector, never destroyed, not handed out)
pub fn fate_ok(kind: usize, pos: usize, vis: usize, vpos: usize, aligned: bool, destroyed: usize, out: usize) -> bool {
    if kind == 0 { vis == 1 && aligned && vpos == pos && destroyed == 0 && out == 0 }
    else if kind == 1 { vis == 0 && destroyed == 1 && out == 0 }
    else if kind == 2 { vis == 0 && destroyed == 0 && out == 1 }
    else { vis == 0 && destroyed == 0 && out == 0 }
}

// weaker fate used by C06/C07 ("only leaks"): a value is visible at most once and, if visible,
// alive and where `pos` says; otherwise it may be leaked, or destroyed/handed out at most once.
pub fn fate_safe(vis: usize, aligned: bool, destroyed: usize, out: usize) -> bool {
    vis <= 1 && destroyed + out <= 1 && (vis == 0 || (aligned && destroyed == 0 && out == 0))
}

// ---- insert(index, v) on a vector of `len` elements, index <= len --------------------------
pub fn insert_len(len: usize) -> usize { len + 1 }
pub fn insert_old_kind(len: usize, index: usize, w: usize) -> usize { 0 }
pub fn insert_old_pos(len: usize, index: usize, w: usize) -> usize { if w < index { w } else { w + 1 } }
pub fn insert_new_pos(len: usize, index: usize) -> usize { index }

// ---- push(v) -------------------------------------------------------------------------------
pub fn push_len(len: usize) -> usize { len + 1 }
pub fn push_old_kind(len: usize, w: usize) -> usize { 0 }
pub fn push_old_pos(len: usize, w: usize) -> usize { w }
pub fn push_new_pos(len: usize) -> usize { len }

// ---- remove(index) / swap_remove(index) / pop(), index < len --------------------------------
// `sink` = fate of the removed value: 1 handle dropped (destroyed), 2 moved out (handed out)
pub fn remove_len(len: usize) -> usize { len - 1 }
pub fn remove_old_kind(len: usize, index: usize, w: usize, sink: usize) -> usize { if w == index { sink } else { 0 } }
pub fn remove_old_pos(len: usize, index: usize, w: usize) -> usize { if w < index { w } else { w - 1 } }
pub fn swap_remove_old_kind(len: usize, index: usize, w: usize, sink: usize) -> usize { if w == index { sink } else { 0 } }
pub fn swap_remove_old_pos(len: usize, index: usize, w: usize) -> usize { if w == len - 1 { index } else { w } }
pub fn pop_old_kind(len: usize, w: usize, sink: usize) -> usize { if w == len - 1 { sink } else { 0 } }
pub fn pop_old_pos(len: usize, w: usize) -> usize { w }
// while the removal handle is alive the vector's length is lowered to the affected index
pub fn remove_len_during(len: usize, index: usize) -> usize { index }
pub fn pop_len_during(len: usize) -> usize { len - 1 }

// ---- clear() ----------------------------------------------------------------------------------
pub fn clear_len(len: usize) -> usize { 0 }
pub fn clear_old_kind(len: usize, w: usize) -> usize { 1 }

// ---- drain(start..end) with f items taken from the front and b from the back ------------------
// 0 <= start <= end <= len, f + b <= end - start
pub fn drain_len(len: usize, start: usize, end: usize) -> usize { len - (end - start) }
pub fn drain_len_during(len: usize, start: usize, end: usize) -> usize { start }
pub fn drain_old_kind(len: usize, start: usize, end: usize, f: usize, b: usize, w: usize) -> usize {
    if w < start { 0 } else if w < start + f { 2 } else if w < end - b { 1 } else if w < end { 2 } else { 0 }
}
pub fn drain_old_pos(len: usize, start: usize, end: usize, w: usize) -> usize { if w < start { w } else { w - (end - start) } }

// ---- splice(start..end, k replacement values) -------------------------------------------------
pub fn splice_len(len: usize, start: usize, end: usize, k: usize) -> usize { len - (end - start) + k }
pub fn splice_old_kind(len: usize, start: usize, end: usize, f: usize, b: usize, w: usize) -> usize {
    if w < start { 0 } else if w < start + f { 2 } else if w < end - b { 1 } else if w < end { 2 } else { 0 }
}
pub fn splice_old_pos(len: usize, start: usize, end: usize, k: usize, w: usize) -> usize { if w < start { w } else { w - (end - start) + k } }
pub fn splice_new_pos(start: usize, r: usize) -> usize { start + r }

// ---- clone() ----------------------------------------------------------------------------------
pub fn clone_len(len: usize) -> usize { len }
pub fn clone_src_pos(len: usize, w: usize) -> usize { w }
pub fn clone_dst_pos(len: usize, w: usize) -> usize { w }
// the target is expanded only when its own capacity cannot hold the contents
pub fn clone_needs_expand(len: usize, target_cap: usize) -> bool { target_cap < len }

// ---- capacity management ----------------------------------------------------------------------
pub fn reserve_ok(len: usize, cap: usize, n: usize, cap2: usize) -> bool { cap2 >= len + n && (cap < len + n || cap2 == cap) }
pub fn reserve_must_grow(len: usize, cap: usize, n: usize) -> bool { cap < len + n }
pub fn shrink_bound(len: usize, m: usize) -> usize { if len > m { len } else { m } }
// exact-resizing backends (Heap, GhostMem): capacity ends at min(cap, max(len, m))
pub fn shrink_cap(len: usize, cap: usize, m: usize) -> usize { if cap < shrink_bound(len, m) { cap } else { shrink_bound(len, m) } }
