"""Registry: which contract harnesses / lemmas decide which property, at which tier.

A harness *instance* is generated from this table (the generic contract functions live in
/verif/kani/*.rs); only the instances selected for a run are compiled.
"""
import os

SIZES_ALL = ['z0', 'e1', 'e2', 'e3', 'e8', 'e12', 'e16', 'e24', 'e160']
TY = dict(z0='Z0', e1='E1', e2='E2', e3='E3', e8='E8', e12='E12', e16='E16', e24='E24', e160='E160',
          d3='D3', d8='D8', d24='D24', a32='A32', a64='A64')
# non power-of-two element sizes make CBMC's bit-level multipliers expensive: those instances are
# thorough-tier only (the quick tier covers sizes 0,1,2,8,16 on the full domain)
SLOW = {'e3', 'e12', 'e24', 'e160', 'd3', 'd24'}


class H:
    def __init__(self, mod, name, call=None, props=(), tier='q', kind='full', bound='', attrs=(), flags=(),
                 allow=(), cost=30, inputs=None, macro='h'):
        self.mod, self.name, self.call = mod, name, call
        self.props, self.tier, self.kind, self.bound = set(props), tier, kind, bound
        self.attrs, self.flags, self.allow, self.cost, self.inputs, self.macro = list(attrs), set(flags), list(allow), cost, inputs, macro

    def fq(self):
        return 'kani_verif::%s::%s' % (self.mod, self.name)

    def timeout(self, tier):
        return int(os.environ.get('VERIF_HARNESS_TIMEOUT', '3600' if tier == 'thorough' else '1500'))

    def line(self):
        attrs = ' '.join((['#[cfg(not(feature = "alloc"))]'] if 'nodefault' in self.flags else []) + self.attrs)
        return '%s!(%s %s, %s);' % (self.macro, attrs, self.name, self.call)


HS = []


def add(*a, **k):
    HS.append(H(*a, **k))


def tier_for(sz, quick_sizes):
    return 'q' if sz in quick_sizes else 't'


# ---------------------------------------------------------------------------------------------------
# K1 src/lib.rs
add('k1_lib', 'copy_bytes_memmove_80', 'copy_bytes_contract::<80>()', props=['C01', 'C05'], tier='q', cost=60, macro='p', attrs=['#[kani::unwind(130)]'])
add('k1_lib', 'copy_bytes_memmove_260', 'copy_bytes_contract::<260>()', props=['C01', 'C05'], tier='t', cost=500, macro='p', attrs=['#[kani::unwind(130)]'])
add('k1_lib', 'copy_bytes_large_forwards', 'copy_bytes_large_h()', props=['C01', 'C05'], tier='q', cost=2, macro='p',
    attrs=['#[kani::stub(core::ptr::copy, crate::kani_verif::k1_lib::stub_copy_record)]', '#[kani::unwind(2)]'])
add('k1_lib', 'copy_bytes_unwound_b8', 'copy_bytes_unwound_h()', props=['C01', 'C05'], tier='q', kind='bounded', bound='count < 8 in a 16-byte object, loops unwound (no loop contracts)',
    attrs=['#[kani::unwind(9)]'], flags=['nolc'], cost=10, macro='p')

# ---------------------------------------------------------------------------------------------------
# K2 insert / push
IN_OWNED = ['len', 'cap', 'w', 'u', 'index']
for sz in SIZES_ALL:
    T = TY[sz]
    drop = 'false' if sz in ('e2', 'e16') else 'true'
    add('k2_insert', 'insert_raw_' + sz, 'insert_owned::<%s>(SRC_RAW, false, %s, false, mk_%s)' % (T, drop, sz),
        props=['C01', 'C03', 'C05'], tier=tier_for(sz, {'z0', 'e1', 'e8', 'e16'}), cost=200 if sz in SLOW else 25, inputs=IN_OWNED)
for sz in ['e3', 'e8', 'e16', 'e24']:
    add('k2_insert', 'insert_wrapper_' + sz, 'insert_owned::<%s>(SRC_WRAPPER, false, true, false, mk_%s)' % (TY[sz], sz),
        props=['C01', 'C03', 'C05'], tier=tier_for(sz, {'e8'}), cost=200 if sz in SLOW else 25, inputs=IN_OWNED)
for sz in ['z0', 'e8', 'd8', 'e12', 'e2']:
    add('k2_insert', 'insert_typed_' + sz, 'insert_owned::<%s>(SRC_TYPED, false, %s, false, mk_%s)' % (TY[sz], 'true' if sz == 'd8' else 'false', sz),
        props=['C01', 'C03', 'C05'], tier=tier_for(sz, {'d8', 'z0'}), cost=200 if sz in SLOW else 30, inputs=IN_OWNED)
add('k2_insert', 'insert_unchecked_sizeless_e8', 'insert_owned::<E8>(SRC_SIZELESS, false, true, false, mk_e8)', props=['C01', 'C03', 'C05'], tier='q', cost=10, inputs=IN_OWNED)
add('k2_insert', 'push_unchecked_sizeless_e8', 'insert_owned::<E8>(SRC_SIZELESS, true, true, false, mk_e8)', props=['C01', 'C05'], tier='q', cost=8, inputs=IN_OWNED)
add('k2_insert', 'insert_raw_fixed_e8', 'insert_owned::<E8>(SRC_RAW, false, true, true, mk_e8)', props=['C01', 'C11', 'C19'], tier='q', cost=10, inputs=IN_OWNED)
add('k2_insert', 'insert_typed_fixed_e8', 'insert_owned::<E8>(SRC_TYPED, false, false, true, mk_e8)', props=['C11', 'C19'], tier='q', cost=10, inputs=IN_OWNED)
add('k2_insert', 'push_raw_fixed_e8', 'insert_owned::<E8>(SRC_RAW, true, true, true, mk_e8)', props=['C11', 'C19'], tier='q', cost=8, inputs=IN_OWNED)
for sz in ['z0', 'e3', 'e8']:
    add('k2_insert', 'push_raw_' + sz, 'insert_owned::<%s>(SRC_RAW, true, true, false, mk_%s)' % (TY[sz], sz),
        props=['C01', 'C03', 'C05', 'C10'], tier=tier_for(sz, {'e8', 'z0'}), cost=60 if sz in SLOW else 8, inputs=IN_OWNED)
add('k2_insert', 'push_wrapper_e16', 'insert_owned::<E16>(SRC_WRAPPER, true, true, false, mk_e16)', props=['C01', 'C03'], tier='t', cost=8, inputs=IN_OWNED)
add('k2_insert', 'push_typed_e8', 'insert_owned::<E8>(SRC_TYPED, true, false, false, mk_e8)', props=['C01', 'C03'], tier='q', cost=8, inputs=IN_OWNED)
add('k2_insert', 'push_typed_e24', 'insert_owned::<E24>(SRC_TYPED, true, false, false, mk_e24)', props=['C01'], tier='t', cost=60, inputs=IN_OWNED)
add('k2_insert', 'insert_from_remove_e8', 'insert_from_other::<E8>(false, super::k2_remove::OP_REMOVE)', props=['C01', 'C03', 'C05'], tier='q', cost=80)
add('k2_insert', 'insert_from_swap_remove_e8', 'insert_from_other::<E8>(false, super::k2_remove::OP_SWAP_REMOVE)', props=['C01', 'C03'], tier='t', cost=80)
add('k2_insert', 'push_from_pop_e8', 'insert_from_other::<E8>(true, super::k2_remove::OP_POP)', props=['C01', 'C03'], tier='t', cost=40)
add('k2_insert', 'push_from_remove_e16', 'insert_from_other::<E16>(true, super::k2_remove::OP_REMOVE)', props=['C01', 'C03'], tier='t', cost=60)
add('k2_insert', 'insert_from_drained_e8', 'insert_from_other::<E8>(false, OP_DRAINED)', props=['C01', 'C03', 'C02'], tier='q', cost=90)
add('k2_insert', 'push_from_drained_e16', 'insert_from_other::<E16>(true, OP_DRAINED)', props=['C01', 'C03'], tier='t', cost=90)
add('k2_insert', 'insert_lazy_clone_e8', 'insert_lazy_clone::<E8>(false)', props=['C01', 'C09', 'C03'], tier='q', cost=40)
add('k2_insert', 'push_lazy_clone_e8', 'insert_lazy_clone::<E8>(true)', props=['C09'], tier='q', cost=20)
add('k2_insert', 'insert_lazy_clone_tgt_e8', 'insert_lazy_clone_tgt::<E8>(false)', props=['C01', 'C06'], tier='q', cost=50)
add('k2_insert', 'insert_lazy_clone_known_e8', 'insert_lazy_clone_tgt_k::<E8>(false, true)', props=['C06', 'C01', 'C09'], tier='q', cost=50)
add('k2_insert', 'push_lazy_clone_known_e8', 'insert_lazy_clone_tgt_k::<E8>(true, true)', props=['C06', 'C09'], tier='q', cost=20)
add('k2_insert', 'insert_lazy_clone_tgt_e3', 'insert_lazy_clone_tgt::<E3>(false)', props=['C06'], tier='t', cost=300)

# ---------------------------------------------------------------------------------------------------
# K2 removals
SINK = dict(drop='SINK_DROP', move='SINK_MOVE', forget='SINK_FORGET', downcast='SINK_DOWNCAST')
OP = dict(remove='OP_REMOVE', swap_remove='OP_SWAP_REMOVE', pop='OP_POP')
IN_REM = ['len', 'cap', 'w', 'u', 'index']
for op in OP:
    for sink in SINK:
        for sz in ['e8', 'e3', 'z0', 'e16', 'e160']:
            if sz != 'e8' and sink in ('downcast',):
                continue
            if sz in ('e16', 'e160') and not (op == 'remove' and sink == 'drop'):
                continue
            props = ['C01', 'C03', 'C05']
            if sink == 'forget':
                props = ['C07', 'C03']
            if sink == 'drop':
                props = props + ['C06', 'C13']
            quick = sz == 'e8' and (sink in ('drop', 'forget') or op == 'remove') or (sz == 'z0' and op == 'remove' and sink == 'drop') or (sz == 'z0' and sink == 'forget' and op in ('remove', 'swap_remove'))
            drop = 'false' if sink == 'downcast' else 'true'
            add('k2_remove', '%s_%s_%s' % (op, sink, sz), 'remove_erased::<%s>(%s, %s, %s)' % (TY[sz], OP[op], SINK[sink], drop),
                props=props, tier='q' if quick else 't', cost=120 if sz in SLOW else 15, inputs=IN_REM)

for op in OP:
    add('k2_remove', '%s_typed_e8' % op, 'remove_typed::<E8>(%s)' % OP[op], props=['C01', 'C03', 'C05'], tier='q', cost=15, inputs=IN_REM)
    add('k2_remove', '%s_typed_e12' % op, 'remove_typed::<E12>(%s)' % OP[op], props=['C01'], tier='t', cost=120, inputs=IN_REM)
add('k2_remove', 'remove_typed_z0', 'remove_typed::<Z0>(OP_REMOVE)', props=['C01', 'C03'], tier='t', cost=10, inputs=IN_REM)
for op in OP:
    add('k2_remove', '%s_drop_nodrop_e8' % op, 'remove_erased::<E8>(%s, SINK_DROP, false)' % OP[op], props=['C01', 'C03'], tier='q' if op == 'remove' else 't', cost=15, inputs=IN_REM)
add('k2_remove', 'remove_drop_nodrop_e3', 'remove_erased::<E3>(OP_REMOVE, SINK_DROP, false)', props=['C03'], tier='t', cost=120, inputs=IN_REM)

# ---------------------------------------------------------------------------------------------------
# K2 drain / splice
IN_RANGE = ['len', 'cap', 'w', 'u', 'start', 'end', 'f', 'b']
U5X = ['#[kani::unwind(5)]']
for sz in SIZES_ALL:
    drop = 'false' if sz == 'e16' else 'true'
    add('k2_range', 'drain_erased_' + sz, 'drain_h::<%s>(false, %s, DROP)' % (TY[sz], drop), props=['C02', 'C03', 'C05', 'C06'],
        tier=tier_for(sz, {'z0', 'e8', 'e16'}), cost=250 if sz in SLOW else 30, inputs=IN_RANGE)
for sz in ['e8', 'e16', 'e12']:
    add('k2_range', 'drain_typed_' + sz, 'drain_h::<%s>(true, false, DROP)' % TY[sz], props=['C02', 'C03', 'C05'],
        tier=tier_for(sz, {'e8'}), cost=250 if sz in SLOW else 25, inputs=IN_RANGE)
add('k2_range', 'drain_typed_d8_b3', 'drain_hb::<D8>(true, true, DROP, 3)', props=['C02', 'C03'], tier='q', kind='bounded', bound='typed element type with drop glue: at most 3 unyielded range elements (core slice drop glue loop unwound)', attrs=['#[kani::unwind(5)]'], cost=60, inputs=IN_RANGE)
add('k2_range', 'drain_typed_api_e8', 'typed_api_h::<E8>(false, mk_e8)', props=['C02', 'C01'], tier='q', cost=40)
add('k2_range', 'splice_typed_api_e8', 'typed_api_h::<E8>(true, mk_e8)', props=['C02'], tier='q', kind='bounded', bound='one replacement value', attrs=U5X, cost=80)
add('k2_range', 'splice_typed_api_fixed_e8', 'typed_api_hf::<E8>(true, true, mk_e8)', props=['C11', 'C02', 'C19'], tier='q', kind='bounded', bound='one replacement value', attrs=U5X, cost=80)
add('k2_range', 'drain_forget_e8', 'drain_h::<E8>(false, true, FORGET)', props=['C07', 'C03'], tier='q', cost=5, inputs=IN_RANGE)
add('k2_range', 'drain_typed_forget_e8', 'drain_h::<E8>(true, false, FORGET)', props=['C07'], tier='q', cost=5, inputs=IN_RANGE)
add('k2_range', 'drain_forget_e3', 'drain_h::<E3>(false, true, FORGET)', props=['C07'], tier='t', cost=30, inputs=IN_RANGE)
U5 = ['#[kani::unwind(5)]']
BK = 'replacement length k <= 3 (Splice::drop loops over user code; the step to all k is the Verus lemma splice_refines)'
for fam, T, typed, drop, fixed, mis, props, qs in [
    ('splice_erased_e8', 'E8', 'false', 'true', 'false', 'false', ['C02', 'C03', 'C05', 'C06'], {0, 2}),
    ('splice_erased_e16', 'E16', 'false', 'false', 'false', 'false', ['C02', 'C03'], set()),
    ('splice_erased_e3', 'E3', 'false', 'true', 'false', 'false', ['C02', 'C03'], set()),
    ('splice_erased_e12', 'E12', 'false', 'true', 'false', 'false', ['C02'], set()),
    ('splice_erased_z0', 'Z0', 'false', 'true', 'false', 'false', ['C02', 'C03'], {1}),
    ('splice_typed_e8', 'E8', 'true', 'false', 'false', 'false', ['C02', 'C03', 'C05'], {1}),
    ('splice_typed_e24', 'E24', 'true', 'false', 'false', 'false', ['C02'], set()),
    ('splice_fixed_e8', 'E8', 'false', 'true', 'true', 'false', ['C11', 'C02', 'C19'], {2}),
    ('splice_misreport_e8', 'E8', 'false', 'true', 'false', 'true', ['C06', 'C05'], {1}),
    ('splice_typed_misreport_e8', 'E8', 'true', 'false', 'false', 'true', ['C06'], set()),
]:
    for k in range(4):
        mk = 'mk_' + T.lower()
        add('k2_range', '%s_k%d' % (fam, k), 'splice_h::<%s>(%s, %s, DROP, %s, %s, %d, %s)' % (T, typed, drop, fixed, mis, k, mk),
            props=props, tier='q' if k in qs else 't', kind='bounded', bound=BK, attrs=U5,
            cost=(400 if T in ('E3', 'E12', 'E24') else 120) * (k + 1), inputs=IN_RANGE + ['report?', 'r'])
add('k2_range', 'drain_item_outlives_e8', 'range_item_outlives_h::<E8>(false)', props=['C03'], tier='q', kind='finding', attrs=U5, cost=10)
add('k2_range', 'splice_item_outlives_e8', 'range_item_outlives_h::<E8>(true)', props=['C03'], tier='q', kind='finding', attrs=U5, cost=10)
add('k2_range', 'element_mut_replace_e8', 'element_mut_replace_h::<E8>()', props=['C03'], tier='q', kind='finding', attrs=U5, cost=10)
add('k2_range', 'splice_forget_e8', 'splice_h::<E8>(false, true, FORGET, false, false, 9, mk_e8)', props=['C07', 'C03'], tier='q',
    kind='full', attrs=U5, cost=5, inputs=IN_RANGE)
add('k2_range', 'splice_typed_forget_e8', 'splice_h::<E8>(true, false, FORGET, false, false, 9, mk_e8)', props=['C07'], tier='q',
    kind='full', attrs=U5, cost=5, inputs=IN_RANGE)


# ---------------------------------------------------------------------------------------------------
# K2 clear / drop / clone / capacity
for sz in ['z0', 'e8', 'e3', 'e16', 'e160']:
    d = 'false' if sz == 'e16' else 'true'
    add('k2_misc', 'clear_' + sz, 'clear_h::<%s>(%s, false)' % (TY[sz], d), props=['C01', 'C03', 'C05', 'C06'], tier=tier_for(sz, {'e8', 'z0'}), cost=40 if sz in SLOW else 6)
    add('k2_misc', 'vecdrop_' + sz, 'vecdrop_h::<%s>(%s)' % (TY[sz], d), props=['C03', 'C05', 'C06'], tier=tier_for(sz, {'e8', 'e16'}), cost=40 if sz in SLOW else 6)
add('k2_misc', 'clear_typed_e8', 'clear_h::<E8>(false, true)', props=['C01'], tier='q', cost=5)
for sz in ['e8', 'e3', 'z0', 'e16', 'e24']:
    add('k2_misc', 'clone_' + sz, 'clone_h::<%s>(false, true)' % TY[sz], props=['C08', 'C03', 'C05', 'C06', 'C10'], tier=tier_for(sz, {'e8', 'z0'}), cost=60 if sz in SLOW else 10)
add('k2_misc', 'clone_fixed_e8', 'clone_h::<E8>(true, true)', props=['C08', 'C11', 'C19'], tier='q', cost=10)
add('k2_misc', 'clone_fixed_e12', 'clone_h::<E12>(true, true)', props=['C08', 'C11'], tier='t', cost=60)
add('k2_misc', 'clone_nodrop_e8', 'clone_h::<E8>(false, false)', props=['C08', 'C03'], tier='q', cost=10)
add('k2_misc', 'clone_nodrop_e3', 'clone_h::<E3>(false, false)', props=['C08'], tier='t', cost=60)
add('k2_misc', 'clone_empty_e8', 'clone_empty_h::<E8>(false)', props=['C08'], tier='q', cost=4)
add('k2_misc', 'clone_empty_in_e8', 'clone_empty_h::<E8>(true)', props=['C08', 'C19'], tier='q', cost=4)
add('k2_misc', 'clone_empty_in_e3', 'clone_empty_h::<E3>(true)', props=['C08'], tier='t', cost=10)
for sz in ['e8', 'z0', 'e12']:
    add('k2_misc', 'reserve_' + sz, 'reserve_h::<%s>(false)' % TY[sz], props=['C10', 'C05'], tier=tier_for(sz, {'e8', 'z0'}), cost=60 if sz in SLOW else 10)
    add('k2_misc', 'reserve_exact_' + sz, 'reserve_h::<%s>(true)' % TY[sz], props=['C10'], tier=tier_for(sz, {'e8'}), cost=60 if sz in SLOW else 10)
    add('k2_misc', 'shrink_to_' + sz, 'shrink_h::<%s>(false)' % TY[sz], props=['C10', 'C05'], tier=tier_for(sz, {'e8', 'z0'}), cost=60 if sz in SLOW else 10)
    add('k2_misc', 'shrink_to_fit_' + sz, 'shrink_h::<%s>(true)' % TY[sz], props=['C10'], tier=tier_for(sz, {'e8'}), cost=60 if sz in SLOW else 10)
add('k2_misc', 'reserve_typed_e8', 'reserve_ht::<E8>(false, true)', props=['C10'], tier='q', cost=10)
add('k2_misc', 'reserve_exact_typed_e8', 'reserve_ht::<E8>(true, true)', props=['C10'], tier='q', cost=10)
add('k2_misc', 'shrink_to_typed_e8', 'shrink_ht::<E8>(false, true)', props=['C10'], tier='q', cost=10)
add('k2_misc', 'shrink_to_fit_typed_e8', 'shrink_ht::<E8>(true, true)', props=['C10'], tier='q', cost=10)
for nm, ty, ex in [('reserve_overflow_e8', 'E8', 'false'), ('reserve_exact_overflow_e8', 'E8', 'true'), ('reserve_overflow_z0', 'Z0', 'false'), ('reserve_exact_overflow_z0', 'Z0', 'true')]:
    add('k2_misc', nm, 'reserve_overflow_h::<%s>(%s)' % (ty, ex), props=['C10'], tier='q', kind='panic', attrs=['#[kani::should_panic]'],
        allow=[r'capacity overflow', r'core::option::expect_failed', r'Option::<.*>::expect'], cost=5)
add('k2_misc', 'with_capacity_e8', 'with_capacity_h::<E8>()', props=['C10', 'C05'], tier='q', cost=3)
add('k2_misc', 'with_capacity_z0', 'with_capacity_h::<Z0>()', props=['C10'], tier='q', cost=3)
add('k2_misc', 'new_in_e8', 'new_in_h::<E8>()', props=['C05', 'C04'], tier='q', cost=3)
add('k2_misc', 'new_in_d24', 'new_in_h::<D24>()', props=['C05', 'C04'], tier='q', cost=3)
add('k2_misc', 'new_in_a64', 'new_in_h::<A64>()', props=['C05', 'C04'], tier='q', cost=3)


# ---------------------------------------------------------------------------------------------------
# K1 handles / iterators
INDEX_PANIC = [r'any_vec_raw::AnyVecRaw::<.*>::index_check', r'called `Option::unwrap\(\)` on a `None` value', r'Option::<.*>::unwrap']
for sz in ['e8', 'z0', 'e3', 'e16', 'e160']:
    add('k1_handles', 'get_' + sz, 'get_h::<%s>()' % TY[sz], props=['C13', 'C01', 'C04'], tier=tier_for(sz, {'e8', 'z0'}), cost=80 if sz in SLOW else 10, macro='p')
for sz in ['e8', 'e12']:
    add('k1_handles', 'get_typed_' + sz, 'get_typed_h::<%s>()' % TY[sz], props=['C13', 'C01'], tier=tier_for(sz, {'e8'}), cost=80 if sz in SLOW else 10, macro='p')
for nm, mu, ty in [('at_oob_e8', 'false', 'false'), ('at_mut_oob_e8', 'true', 'false'), ('at_typed_oob_e8', 'false', 'true'), ('at_mut_typed_oob_e8', 'true', 'true')]:
    add('k1_handles', nm, 'at_oob_h::<E8>(%s, %s)' % (mu, ty), props=['C13', 'C01'], tier='q', kind='panic', attrs=['#[kani::should_panic]'],
        allow=[r'unwrap', r'index_check'], cost=4, macro='p')
for sz in ['e8', 'z0', 'e3', 'e16']:
    add('k1_handles', 'iter_' + sz, 'iter_h::<%s>(false)' % TY[sz], props=['C14', 'C13'], tier=tier_for(sz, {'e8', 'z0'}), cost=80 if sz in SLOW else 10, macro='p')
add('k1_handles', 'iter_mut_e8', 'iter_h::<E8>(true)', props=['C14', 'C13'], tier='q', cost=10, macro='p')
add('k1_handles', 'iter_mut_e12', 'iter_h::<E12>(true)', props=['C14'], tier='t', cost=80, macro='p')
add('k1_handles', 'drain_iter_e8', 'range_iter_h::<E8>(false, false)', props=['C14', 'C02', 'C03', 'C13'], tier='q', cost=15)
add('k1_handles', 'splice_iter_e8', 'range_iter_h::<E8>(false, true)', props=['C14', 'C02'], tier='q', cost=15)
add('k1_handles', 'drain_iter_typed_e8', 'range_iter_h::<D8>(true, false)', props=['C14', 'C02'], tier='q', cost=15)
BNTH = 'n <= 2 skipped elements (core default Iterator::nth / nth_back loop over next())'
add('k1_handles', 'drain_nth_e8', 'range_nth_h::<E8>(false, false)', props=['C03', 'C02', 'C14'], tier='q', kind='bounded', bound=BNTH, attrs=['#[kani::unwind(5)]'], cost=20)
add('k1_handles', 'drain_nth_back_e8', 'range_nth_h::<E8>(false, true)', props=['C03', 'C02', 'C14'], tier='q', kind='bounded', bound=BNTH, attrs=['#[kani::unwind(5)]'], cost=20)
add('k1_handles', 'splice_nth_e8', 'range_nth_h::<E8>(true, false)', props=['C03', 'C02'], tier='q', kind='bounded', bound=BNTH, attrs=['#[kani::unwind(5)]'], cost=20)
BPROV = 'at most 2 items remain, n <= 2 (core provided Iterator methods loop over next() / next_back())'
add('k1_handles', 'iter_provided_e8', 'iter_provided_h::<E8>(false)', props=['C14', 'C13', 'C01'], tier='q', kind='bounded', bound=BPROV, attrs=['#[kani::unwind(5)]'], cost=20)
add('k1_handles', 'iter_mut_provided_e8', 'iter_provided_h::<E8>(true)', props=['C14', 'C01'], tier='q', kind='bounded', bound=BPROV, attrs=['#[kani::unwind(5)]'], cost=20)
add('k1_handles', 'into_iter_e8', 'into_iter_h::<E8>()', props=['C14', 'C13'], tier='q', cost=10, macro='p')
add('k1_handles', 'into_iter_e3', 'into_iter_h::<E3>()', props=['C14'], tier='t', cost=60, macro='p')
add('k1_handles', 'drain_iter_e3', 'range_iter_h::<E3>(false, false)', props=['C14'], tier='t', cost=100)


# ---------------------------------------------------------------------------------------------------
# C04 runtime type checks
TSTUB = '#[kani::stub(crate::assert_types_equal, crate::kani_verif::k1_types::obs_assert_types_equal)]'
TYPE_PANIC = [r'in function assert_types_equal', r'Type mismatch', r'core::panicking::assert_failed_inner']   # assert_eq!(type ids) is the only assert_eq! reachable in these harnesses
add('k1_types', 'push_mismatch_raw', 'admit_mismatch_raw(true)', props=['C04'], tier='q', kind='panic', attrs=['#[kani::should_panic]', TSTUB], allow=TYPE_PANIC, cost=5)
add('k1_types', 'insert_mismatch_raw', 'admit_mismatch_raw(false)', props=['C04'], tier='q', kind='panic', attrs=['#[kani::should_panic]', TSTUB], allow=TYPE_PANIC, cost=5)
for nm, ty in [('u64', 'u64'), ('i64', 'i64'), ('f64', 'f64'), ('a8', '[u8; 8]'), ('u8', 'u8'), ('unit', '()')]:
    add('k1_types', 'insert_mismatch_wrapper_' + nm, 'admit_mismatch_wrapper::<%s>(false, mk_%s)' % (ty, nm), props=['C04'], tier='q' if nm in ('i64', 'a8', 'u8') else 't',
        kind='panic', attrs=['#[kani::should_panic]', TSTUB], allow=TYPE_PANIC, cost=5)
    add('k1_types', 'push_mismatch_wrapper_' + nm, 'admit_mismatch_wrapper::<%s>(true, mk_%s)' % (ty, nm), props=['C04'], tier='q' if nm in ('f64',) else 't',
        kind='panic', attrs=['#[kani::should_panic]', TSTUB], allow=TYPE_PANIC, cost=5)
    add('k1_types', 'downcast_table_' + nm, 'downcast_table::<%s>()' % ty, props=['C04'], tier='q' if nm in ('u64', 'a8', 'u8') else 't', cost=8)
    add('k1_types', 'downcast_handle_' + nm, 'downcast_handle::<%s>()' % ty, props=['C04', 'C03'], tier='q' if nm in ('i64',) else 't', cost=20)
add('k1_types', 'splice_mismatch', 'splice_mismatch_h()', props=['C04', 'C06'], tier='q', kind='panic', attrs=['#[kani::should_panic]', '#[kani::unwind(5)]'], allow=TYPE_PANIC, cost=60)
add('k1_types', 'swap_mismatch', 'swap_mismatch_h()', props=['C04'], tier='q', kind='panic',
    attrs=['#[kani::should_panic]', '#[kani::stub(core::mem::swap, crate::kani_verif::k1_types::forbid_swap)]', '#[kani::stub(core::ptr::swap_nonoverlapping, crate::kani_verif::k1_types::forbid_swap_no)]'],
    allow=[r'core::panicking::assert_failed_inner'], cost=3, macro='p')
add('k1_types', 'swap_mismatch_wrapper', 'swap_mismatch_wrapper_h()', props=['C04'], tier='q', kind='panic',
    attrs=['#[kani::should_panic]', '#[kani::stub(core::mem::swap, crate::kani_verif::k1_types::forbid_swap)]', '#[kani::stub(core::ptr::swap_nonoverlapping, crate::kani_verif::k1_types::forbid_swap_no)]'],
    allow=[r'core::panicking::assert_failed_inner'], cost=3, macro='p')


# ---------------------------------------------------------------------------------------------------
# C09 lazy clones; C17 raw parts
KIND = dict(ref='S_REF', mut='S_MUT', drained='S_DRAINED', remove='S_REMOVE', pop='S_POP')
for kn in KIND:
    for depth in (1, 2, 3):
        q = (kn, depth) in {('ref', 1), ('drained', 2), ('remove', 3), ('mut', 2), ('pop', 1)}
        add('k2_lazy', 'lazy_%s_d%d_e8' % (kn, depth), 'lazy_h::<E8>(%s, %d)' % (KIND[kn], depth), props=['C09', 'C03'], tier='q' if q else 't', cost=60)
add('k2_lazy', 'lazy_remove_d1_z0', 'lazy_h::<Z0>(S_REMOVE, 1)', props=['C09'], tier='q', cost=20)
add('k2_lazy', 'lazy_ref_d2_z0', 'lazy_h::<Z0>(S_REF, 2)', props=['C09'], tier='t', cost=20)
add('k2_lazy', 'lazy_splice_e8', 'lazy_splice_h::<E8>()', props=['C09', 'C02'], tier='q', kind='bounded', bound='2 lazy-clone replacement items', attrs=['#[kani::unwind(5)]'], cost=150)
add('k2_lazy', 'lazy_ref_d2_e3', 'lazy_h::<E3>(S_REF, 2)', props=['C09'], tier='t', cost=300)
add('k2_lazy', 'lazy_remove_d1_e16', 'lazy_h::<E16>(S_REMOVE, 1)', props=['C09'], tier='t', cost=60)
for sz in ['e8', 'z0', 'e3', 'e16', 'e160']:
    add('k1_rawparts', 'rawparts_' + sz, 'rawparts_h::<%s>(false)' % TY[sz], props=['C17'], tier=tier_for(sz, {'e8', 'z0'}), cost=20, macro='p')
add('k1_rawparts', 'rawparts_cloneable_e8', 'rawparts_h::<E8>(true)', props=['C17'], tier='q', cost=8, macro='p')
add('k1_rawparts', 'rawparts_cloneable_e12', 'rawparts_h::<E12>(true)', props=['C17'], tier='t', cost=20, macro='p')
add('k1_rawparts', 'rawparts_empty_e8', 'rawparts_empty_h::<E8>()', props=['C17'], tier='q', cost=2, macro='p')
add('k1_rawparts', 'rawparts_empty_d24', 'rawparts_empty_h::<D24>()', props=['C17'], tier='q', cost=2, macro='p')
add('k1_rawparts', 'rawparts_empty_a64', 'rawparts_empty_h::<A64>()', props=['C17'], tier='q', cost=2, macro='p')


# ---------------------------------------------------------------------------------------------------
# K1 HeapMem against the allocator protocol (C18, C10, C12, C17)
HEAP_T = ['e8', 'z0', 'e3', 'e12', 'e16', 'a64', 'e160', 'e1']
for sz in HEAP_T:
    q = sz in ('e8', 'z0', 'e3', 'a64')
    add('k1_heap', 'heap_protocol_' + sz, 'heap_protocol_h::<%s>()' % TY[sz], props=['C18', 'C10', 'C12', 'C01', 'C05'], tier='q' if q else 't', cost=20, macro='ha')
    add('k1_heap', 'heap_expand_' + sz, 'heap_expand_h::<%s>()' % TY[sz], props=['C18', 'C10'], tier='q' if sz in ('e8', 'e3') else 't', cost=20, macro='ha')
    add('k1_heap', 'heap_expand_exact_' + sz, 'heap_expand_exact_h::<%s>()' % TY[sz], props=['C18', 'C10', 'C12'], tier='q' if sz in ('e8', 'a64', 'z0') else 't', cost=20, macro='ha')
    add('k1_heap', 'heap_with_size_' + sz, 'heap_with_size_h::<%s>()' % TY[sz], props=['C18', 'C10'], tier='q' if sz in ('e8', 'z0') else 't', cost=5, macro='ha')
    add('k1_heap', 'heap_rawparts_' + sz, 'heap_rawparts_h::<%s>()' % TY[sz], props=['C17', 'C18'], tier='q' if sz in ('e8', 'z0') else 't', cost=5, macro='ha')
    if sz != 'z0':
        add('k1_heap', 'heap_invalid_' + sz, 'heap_invalid_h::<%s>()' % TY[sz], props=['C18'], tier='q' if sz in ('e8', 'e3', 'a64') else 't', kind='panic',
            attrs=['#[kani::should_panic]'], allow=[r'in function core::(option|result)::(unwrap_failed|expect_failed)', r'capacity overflow'], cost=10, macro='ha')
        add('k1_heap', 'heap_expand_invalid_' + sz, 'heap_expand_invalid_h::<%s>()' % TY[sz], props=['C18', 'C10'], tier='q' if sz in ('e8', 'e3') else 't', kind='panic',
            attrs=['#[kani::should_panic]'], allow=[r'in function core::(option|result)::(unwrap_failed|expect_failed)', r'capacity overflow'], cost=10, macro='ha')

for opn, op in [('shrink_to_fit', 0), ('shrink_to', 1), ('reserve_exact', 2), ('reserve', 3)]:
    add('k1_heap', 'heap_vec_%s_e8' % opn, 'heap_vec_capacity_h::<E8>(%d, false)' % op, props=['C10', 'C18'], tier='q', cost=20, macro='ha')
    add('k1_heap', 'heap_vec_%s_e3' % opn, 'heap_vec_capacity_h::<E3>(%d, false)' % op, props=['C10'], tier='t', cost=40, macro='ha')
    add('k1_heap', 'heap_vec_%s_e1' % opn, 'heap_vec_capacity_h::<E1>(%d, false)' % op, props=['C10'], tier='q' if op == 0 else 't', cost=20, macro='ha')
add('k1_heap', 'heap_vec_rawparts_e8', 'heap_vec_rawparts_h::<E8>()', props=['C17', 'C18'], tier='q', cost=20, macro='ha')
add('k1_heap', 'heap_vec_rawparts_e3', 'heap_vec_rawparts_h::<E3>()', props=['C17'], tier='t', cost=30, macro='ha')
add('k1_heap', 'heap_vec_shrink_to_fit_typed_e8', 'heap_vec_capacity_h::<E8>(0, true)', props=['C10'], tier='q', cost=20, macro='ha')


# ---------------------------------------------------------------------------------------------------
# K1 into_range, expected panics of checked entry points
RANGE_PANIC = [r'in function into_range', r'range (start|end) overflow', r'core::option::expect_failed', r'Option::<.*>::expect']
add('k1_misc', 'into_range_ok', 'into_range_ok_h()', props=['C02'], tier='q', cost=3, macro='p')
add('k1_misc', 'into_range_bad', 'into_range_bad_h()', props=['C02'], tier='q', kind='panic', attrs=['#[kani::should_panic]'], allow=RANGE_PANIC, cost=3, macro='p')
for nm, sp, ty in [('drain_bad_range_e8', 'false', 'false'), ('splice_bad_range_e8', 'true', 'false'), ('drain_typed_bad_range_e8', 'false', 'true'), ('splice_typed_bad_range_e8', 'true', 'true')]:
    add('k1_misc', nm, 'range_op_bad::<E8>(%s, %s)' % (sp, ty), props=['C02'], tier='q' if nm in ('drain_bad_range_e8', 'splice_typed_bad_range_e8') else 't', kind='panic',
        attrs=['#[kani::should_panic]'], allow=RANGE_PANIC, cost=6)
OBS = ['#[kani::should_panic]', '#[kani::stub(crate::any_vec_raw::AnyVecRaw::index_check, crate::kani_verif::k1_misc::obs_index_check)]']
IDX_PANIC = [r'obs_index_check', r'in function any_vec_raw::AnyVecRaw::<.*>::index_check', r'Index out of range', r'in function any_vec_raw::AnyVecRaw::<.*>::insert_unchecked']
for nm, op, ty, q in [('remove_oob_e8', 0, 'false', True), ('swap_remove_oob_e8', 1, 'false', True), ('insert_oob_e8', 2, 'false', True),
                      ('remove_typed_oob_e8', 0, 'true', True), ('swap_remove_typed_oob_e8', 1, 'true', False), ('insert_typed_oob_e8', 2, 'true', True)]:
    add('k1_misc', nm, 'index_op_bad::<E8>(%d, %s, mk_e8)' % (op, ty), props=['C01'], tier='q' if q else 't', kind='panic', attrs=OBS, allow=IDX_PANIC, cost=6)
add('k1_misc', 'none_ops_e8', 'none_ops::<E8>()', props=['C01', 'C13'], tier='q', cost=6)
add('k1_misc', 'none_ops_z0', 'none_ops::<Z0>()', props=['C01'], tier='t', cost=6)
CAP_PANIC = [r"Can't change capacity", r'GhostMem as mem::Mem>::expand']
add('k2_range', 'splice_fixed_overflow_e8', 'splice_fixed_overflow_h::<E8>(false, mk_e8)', props=['C11', 'C06'], tier='q', kind='panic', attrs=['#[kani::should_panic]', '#[kani::unwind(5)]'], allow=CAP_PANIC, cost=60)
add('k2_range', 'splice_typed_fixed_overflow_e8', 'splice_fixed_overflow_h::<E8>(true, mk_e8)', props=['C11'], tier='t', kind='panic', attrs=['#[kani::should_panic]', '#[kani::unwind(5)]'], allow=CAP_PANIC, cost=60)
for nm, pu, ty in [('push_fixed_full_e8', 'true', 'false'), ('insert_fixed_full_e8', 'false', 'false'), ('push_typed_fixed_full_e8', 'true', 'true'), ('insert_typed_fixed_full_e8', 'false', 'true')]:
    add('k1_misc', nm, 'fixed_overflow::<E8>(%s, %s, mk_e8)' % (pu, ty), props=['C11', 'C19'], tier='q', kind='panic', attrs=['#[kani::should_panic]'], allow=CAP_PANIC, cost=6)


# ---------------------------------------------------------------------------------------------------
# K1 Stack / StackN / Empty / dangling (C11, C12, C19)
GRID = {'e1': [0, 1, 5], 'e3': [0, 2, 3, 4, 8, 9, 10], 'e8': [0, 7, 8, 9, 15, 16, 17, 513], 'e12': [11, 12, 13, 24, 25], 'e24': [23, 24, 25, 48], 'z0': [0, 5], 'e160': [159, 160, 161, 320]}
for sz, sizes in GRID.items():
    for S in sizes:
        add('k1_mem', 'stack_build_%s_%d' % (sz, S), 'stack_build_h::<%s, %d>()' % (TY[sz], S), props=['C11', 'C12', 'C19'],
            tier='q' if (sz, S) in {('e8', 16), ('e3', 8), ('z0', 5), ('e12', 25), ('e8', 7)} else 't', cost=1, macro='p')
for sz, S in [('e16', 64), ('a32', 64), ('a64', 128)]:
    add('k1_mem', 'stack_align_%s' % sz, 'stack_build_h::<%s, %d>()' % (TY[sz], S), props=['C12'], tier='q', cost=1, macro='p')
    add('k1_mem', 'stackn_align_%s' % sz, 'stackn_build_h::<%s, 1, %d>()' % (TY[sz], S), props=['C12'], tier='q', cost=1, macro='p')
for sz, N, S in [('e8', 2, 16), ('e8', 2, 17), ('e8', 0, 0), ('e3', 3, 9), ('e3', 3, 10), ('z0', 7, 0), ('e12', 2, 24), ('e24', 1, 24), ('e160', 2, 320)]:
    add('k1_mem', 'stackn_build_%s_%d_%d' % (sz, N, S), 'stackn_build_h::<%s, %d, %d>()' % (TY[sz], N, S), props=['C11', 'C12', 'C19'],
        tier='q' if (sz, N, S) in {('e8', 2, 16), ('e3', 3, 9), ('z0', 7, 0)} else 't', cost=1, macro='p')
for sz, N, S in [('e8', 2, 15), ('e3', 3, 8), ('e8', 1, 0), ('e12', 2, 23), ('e8', 2305843009213693952, 8), ('e2', 9223372036854775808, 16), ('e3', 6148914691236517206, 16)]:
    add('k1_mem', 'stackn_insufficient_%s_%d_%d' % (sz, N, S), 'stackn_insufficient_h::<%s, %d, %d>()' % (TY[sz], N, S), props=['C11'],
        tier='q' if (sz, S) in {('e8', 15), ('e8', 8), ('e2', 16)} else 't', kind='panic', attrs=['#[kani::should_panic]'],
        allow=[r'StackN<.*> as mem::MemBuilder>::build', r'Insufficient storage'], cost=1, macro='p')
for nm, call in [('stack_overaligned_za128', 'stack_overaligned_h::<ZA128, 64>(false)'), ('stackn_overaligned_za128', 'stack_overaligned_h::<ZA128, 64>(true)'),
                 ('stack_overaligned_a128', 'stack_overaligned_h::<A128, 256>(false)'), ('stackn_overaligned_a128', 'stack_overaligned_h::<A128, 256>(true)')]:
    add('k1_mem', nm, call, props=['C12', 'C11'], tier='q' if 'za128' in nm else 't', kind='panic', attrs=['#[kani::should_panic]'],
        allow=[r'as mem::MemBuilder>::build', r'Unsupported alignment'], cost=1, macro='p')
for sz in ['e8', 'z0', 'e3', 'a64', 'e16']:
    add('k1_mem', 'empty_' + sz, 'empty_h::<%s>()' % TY[sz], props=['C12', 'C17', 'C19'], tier='q' if sz in ('e8', 'a64') else 't', cost=1, macro='p')
add('k1_mem', 'dangling_all', 'dangling_h()', props=['C12'], tier='q', cost=3, macro='p')
add('k1_mem', 'stack_expand_panics', 'stack_expand_h()', props=['C11'], tier='q', kind='panic', attrs=['#[kani::should_panic]'], allow=[r"as mem::Mem>::expand", r"Can't change capacity"], cost=1, macro='p')


# ---------------------------------------------------------------------------------------------------
# C12 views, C13 swap
for sz in ['e8', 'z0', 'e1', 'e3', 'e16', 'e12', 'a64', 'e160']:
    add('k1_views', 'views_' + sz, 'views_h::<%s>()' % TY[sz], props=['C12', 'C13'], tier=tier_for(sz, {'e8', 'z0', 'e1', 'a64'}), cost=60 if sz in SLOW else 8, macro='p')
BINL = 'one backend instance each (capacity 2), every length 0..=2 of it, real memory'
add('k1_views', 'inline_views_stack10_u32', 'inline_views_h::<Stack<10>, u32, 2>()', props=['C12', 'C13', 'C04', 'C11'], tier='q', kind='bounded', bound=BINL, attrs=['#[kani::unwind(6)]'], flags=['nolc'], cost=20, macro='p')
add('k1_views', 'inline_views_stackn_2_24_u32', 'inline_views_h::<StackN<2, 24>, u32, 2>()', props=['C12', 'C13', 'C04', 'C11'], tier='q', kind='bounded', bound=BINL, attrs=['#[kani::unwind(6)]'], flags=['nolc'], cost=20, macro='p')
add('k1_views', 'inline_views_stack7_b3', 'inline_views_h::<Stack<7>, [u8; 3], 2>()', props=['C12', 'C13'], tier='t', kind='bounded', bound=BINL, attrs=['#[kani::unwind(6)]'], flags=['nolc'], cost=20, macro='p')
INL_PANIC = [r"Can't change capacity", r'as mem::Mem>::expand']
add('k1_views', 'inline_overflow_stackn_1_16_u32', 'inline_overflow_h::<StackN<1, 16>, u32, 1>()', props=['C11', 'C05'], tier='q', kind='panic', attrs=['#[kani::should_panic]', '#[kani::unwind(6)]'], allow=INL_PANIC, flags=['nolc'], cost=20, macro='p')
add('k1_views', 'inline_overflow_stack10_u32', 'inline_overflow_h::<Stack<10>, u32, 2>()', props=['C11'], tier='q', kind='panic', attrs=['#[kani::should_panic]', '#[kani::unwind(6)]'], allow=INL_PANIC, flags=['nolc'], cost=20, macro='p')
HK = ['H_ELEM_MUT', 'H_TEMP', 'H_WRAPPER', 'H_RAW']
BSWAP = 'vectors of 3 u64 elements on real Stack<32> memory; the swapped values and indices are fully symbolic'
for a in range(4):
    for b in range(4):
        add('k1_views', 'swap_%d_%d' % (a, b), 'swap_h(%s, %s)' % (HK[a], HK[b]), props=['C13'], tier='q' if (a, b) in {(0, 0), (0, 1), (1, 2), (2, 3), (3, 0), (1, 1)} else 't',
            kind='bounded', bound=BSWAP, attrs=['#[kani::stub(core::ptr::swap_nonoverlapping, crate::kani_verif::k1_views::swap_no_model)]'], flags=['nolc'], cost=20, macro='p')


# ---------------------------------------------------------------------------------------------------
# C15 type-level table
add('t_sendsync', 't_vectors', 't_vectors_h()', props=['C15'], tier='q', cost=3, macro='p')
add('t_sendsync', 't_elements', 't_elements_h()', props=['C15'], tier='q', cost=3, macro='p')
add('t_sendsync', 't_handles', 't_handles_h()', props=['C15'], tier='q', cost=5, macro='p')
add('t_sendsync', 't_handles2', 't_handles2_h()', props=['C15'], tier='q', cost=5, macro='p')
add('t_sendsync', 't_vectors_noalloc', 't_vectors_h()', props=['C15'], tier='t', cost=3, macro='p', flags=['nodefault'])


# ---------------------------------------------------------------------------------------------------
# bounded stand-ins: the two per-element user-code loops; K3 real-memory cross-checks
BL = 'len <= 8 elements, real memory, loop unwound (the loop calls user code: no loop contract can frame it in Kani 0.68)'
add('k1_loops', 'clone_fn_0', 'clone_fn_h::<0>()', props=['C08', 'C03', 'C09'], tier='q', kind='bounded', bound=BL, attrs=['#[kani::unwind(10)]'], flags=['nolc'], cost=15, macro='p')
add('k1_loops', 'drop_closure_0', 'drop_closure_h::<0>()', props=['C03'], tier='q', kind='bounded', bound=BL, attrs=['#[kani::unwind(10)]'], flags=['nolc'], cost=15, macro='p')
for n in (1, 3, 8, 24):
    add('k1_loops', 'drop_closure_%d' % n, 'drop_closure_h::<%d>()' % n, props=['C03', 'C05'], tier='q' if n in (3, 8) else 't', kind='bounded', bound=BL,
        attrs=['#[kani::unwind(10)]'], flags=['nolc'], cost=15, macro='p')
    add('k1_loops', 'clone_fn_%d' % n, 'clone_fn_h::<%d>()' % n, props=['C08', 'C03'], tier='q' if n in (3, 8) else 't', kind='bounded', bound=BL,
        attrs=['#[kani::unwind(10)]'], flags=['nolc'], cost=30, macro='p')
add('k1_loops', 'drop_closure_unbounded', 'drop_closure_unbounded_h()', props=['C03', 'C05'], tier='q', cost=5, macro='p', attrs=['#[kani::unwind(4)]'])
add('k1_loops', 'clone_fn_unbounded', 'clone_fn_unbounded_h()', props=['C08', 'C03', 'C05'], tier='q', cost=5, macro='p', attrs=['#[kani::unwind(4)]'])
add('k1_loops', 'clone_from_samelayout_stack', 'clone_from_h::<TC>(mk_tc)', props=['C08', 'C04', 'C09'], tier='q', kind='bounded', bound='real Stack<16> vectors (capacity 2) of two 8-byte element types of equal layout, lengths 0..=2', attrs=['#[kani::unwind(6)]'], flags=['nolc'], cost=30, macro='p')
add('k1_loops', 'clone_from_same_stack', 'clone_from_h::<TB>(mk_tb)', props=['C08', 'C11', 'C12'], tier='q', kind='bounded', bound='real Stack<16> vectors (capacity 2) of one 8-byte element type, lengths 0..=2', attrs=['#[kani::unwind(6)]'], flags=['nolc'], cost=30, macro='p')
add('k1_loops', 'clone_from_stack', 'clone_from_h::<TA>(mk_ta)', props=['C08', 'C04', 'C09', 'C11', 'C12'], tier='q', kind='bounded', bound='real Stack<16> vectors (capacity 2) of two 8-byte element types, lengths 0..=2', attrs=['#[kani::unwind(6)]'], flags=['nolc'], cost=30, macro='p')
add('k1_loops', 'nop_clone', 'nop_clone_h()', props=['C08'], tier='q', cost=2, macro='p')
B3 = 'real Stack<16> vector of u32 (capacity 4), every state and index in that bound, real copy_bytes unwound'
add('k1_loops', 'k3_insert_u8', 'k3_insert_h::<u8, 6, 6>()', props=['C01', 'C05'], tier='t', kind='bounded', bound='real Stack<6> vector of u8 (capacity 6), every state and index in that bound, real copy_bytes unwound', attrs=['#[kani::unwind(20)]'], flags=['nolc'], cost=40, macro='p')
add('k1_loops', 'k3_insert', 'k3_insert_h::<u32, 16, 4>()', props=['C01', 'C05'], tier='q', kind='bounded', bound=B3, attrs=['#[kani::unwind(20)]'], flags=['nolc'], cost=60, macro='p')
add('k1_loops', 'k3_remove', 'k3_remove_h()', props=['C01', 'C05'], tier='t', kind='bounded', bound=B3, attrs=['#[kani::unwind(20)]'], flags=['nolc'], cost=60, macro='p')


# C03 / C05 / C06 obligations (ownership accounting, recorder preconditions against the current region, panic-view
# invariant at every call-out) are generated inside the recorders, i.e. by EVERY operation-contract harness: each K2
# harness of the default build serves all three, whatever property it was written for
# (thorough tier only: `vp check` stops a quick command after 900 s, and ~100 harnesses per property do not fit that
# on a loaded machine; the quick tier keeps the instances registered for the property explicitly)
for h in HS:
    if h.mod.startswith('k2_') and h.kind != 'finding':
        h.thorough_props = {'C03', 'C05', 'C06'} - h.props

# C10 "len <= capacity always": every operation contract asserts len' <= capacity'; one representative per growing operation serves C10
for h in HS:
    if h.name in ('insert_raw_e8', 'splice_erased_e8_k2', 'insert_from_remove_e8', 'insert_lazy_clone_e8', 'clone_nodrop_e8', 'clone_fixed_e8'):
        h.props.add('C10')

# ---------------------------------------------------------------------------------------------------
# C19: the same contracts on the --no-default-features build (no `alloc`, no Heap)
import copy
NA_BASE = ['copy_bytes_memmove_80', 'k3_insert', 'stack_align_a64', 'stackn_align_a32', 'insert_raw_fixed_e8', 'insert_typed_fixed_e8', 'push_raw_fixed_e8', 'splice_fixed_e8_k2', 'clone_fixed_e8', 'clone_empty_in_e8', 'drain_erased_e8',
           'remove_drop_e8', 'swap_remove_move_e8', 'pop_drop_e8', 'insert_raw_e8', 'push_fixed_full_e8', 'insert_typed_fixed_full_e8', 'stack_build_e8_16',
           'stack_build_e3_8', 'stackn_build_e8_2_16', 'stackn_insufficient_e8_2_15', 'empty_e8', 'iter_e8', 'get_e8', 'clear_e8', 'vecdrop_e8', 't_elements',
           # one representative per harness family (a change guarded by cfg!(not(feature = "alloc")) can sit in any function)
           'stack_build_e3_9', 'stack_build_e24_48', 'clone_nodrop_e8', 'clone_e8', 'lazy_ref_d1_e8', 'views_e8', 'inline_views_stack10_u32', 'inline_views_stackn_2_24_u32', 'iter_provided_e8', 'drain_nth_e8', 'pop_forget_e8', 'insert_wrapper_e8', 'insert_lazy_clone_tgt_e8', 'splice_erased_e8_k2', 'swap_0_0', 'into_iter_e8', 'splice_typed_api_fixed_e8', 'splice_fixed_overflow_e8']
QUICK_NA = {'copy_bytes_memmove_80', 'stack_align_a64', 'stackn_align_a32', 'insert_raw_fixed_e8', 'push_raw_fixed_e8', 'clone_fixed_e8', 'drain_erased_e8', 'remove_drop_e8', 'push_fixed_full_e8', 'stack_build_e8_16', 'stackn_build_e8_2_16', 'splice_fixed_e8_k2',
            'stack_build_e3_9', 'stack_build_e24_48', 'clone_nodrop_e8', 'clone_e8', 'lazy_ref_d1_e8', 'views_e8', 'inline_views_stack10_u32', 'inline_views_stackn_2_24_u32', 'iter_provided_e8', 'drain_nth_e8', 'pop_forget_e8', 'insert_wrapper_e8', 'insert_lazy_clone_tgt_e8', 'splice_erased_e8_k2', 'swap_0_0', 'into_iter_e8', 'splice_typed_api_fixed_e8', 'splice_fixed_overflow_e8'}
for nm in NA_BASE:
    h0 = next(h for h in HS if h.name == nm)
    h = copy.copy(h0)
    h.name = nm + '_na'
    h.props = {'C19'}
    h.thorough_props = set()
    h.flags = set(h0.flags) | {'nodefault'}
    h.tier = 'q' if nm in QUICK_NA else 't'
    HS.append(h)
add('k1_mem', 'default_is_empty_na', 'default_is_empty_h()', props=['C19'], tier='q', cost=2, macro='p', flags=['nodefault'])


# ---------------------------------------------------------------------------------------------------
MODULES = ['k1_lib', 'k2_insert', 'k2_remove', 'k2_range', 'k2_misc', 'k1_handles', 'k1_types', 'k2_lazy', 'k1_rawparts', 'k1_heap', 'k1_misc', 'k1_mem', 'k1_views', 't_sendsync', 'k1_loops']


BDOM = 'reduced state domain len <= cap <= 128 (non power-of-two element size: CBMC bit-blasts the size multiplications; the full 2^20 domain exceeds the time limit for this operation)'
for h in HS:
    if h.call and h.mod in ('k2_range', 'k2_lazy') and any(('<%s>' % TY[z]) in h.call for z in SLOW):
        h.call = '{ set_domain(8); %s }' % h.call
        h.bound = (h.bound + '; ' if h.bound else '') + BDOM
        h.kind = 'bounded' if h.kind == 'full' else h.kind
        h.cost = max(20, h.cost // 10)
for h in HS:
    if h.name in ('insert_lazy_clone_tgt_e3',):
        h.call = '{ set_domain(8); %s }' % h.call
        h.bound = BDOM; h.kind = 'bounded'; h.cost = 30


def write_instances(kv_dir, selected):
    by = {m: [] for m in MODULES}
    for h in selected:
        if h.call:
            by[h.mod].append(h.line())
    for m in MODULES:
        open(os.path.join(kv_dir, m + '.inst.rs'), 'w').write('\n'.join(by[m]) + '\n')


def select(pid, tier):
    return [h for h in HS if (pid in h.props or (tier == 'thorough' and pid in getattr(h, 'thorough_props', ())))
            and (tier == 'thorough' or h.tier == 'q')]


ALL = HS

TRUSTED_BASE = [
    'Kani 0.68 / CBMC 6.11 / rustc (Kani pinned nightly): sound, MIR->goto translation faithful; Kani builds with overflow checks',
    'Verus 0.2026.09.13 / Z3 sound (lemmas over contracts only, never code)',
    'core::ptr::{copy, copy_nonoverlapping} behave as memmove/memcpy (their recorder stubs state exactly that)',
    'mem::{forget, needs_drop, swap}, ptr::{read, drop_in_place, swap_nonoverlapping}, TypeId::of (injective), slice::Iter, iter::Map, Layout behave as documented',
    'GlobalAlloc contract (blocks of the requested size and alignment); a user Mem honours the Mem/MemResizable interface as GhostMem does',
    "Rust ownership/borrowing holds for safe callers (exclusive handles exclude other access; unwinding drops each live local once)",
]
ASSUMPTIONS = [
    'domain: len <= cap <= 2^20 elements per vector (harness parameter), element sizes instantiated from {0,1,2,3,8,12,16,24,160}',
    'memory primitives are replaced by their contracts (recorder stubs) in K2 harnesses: copy_bytes (proved equivalent to memmove by k1_lib::copy_bytes_memmove_*), ptr::copy, ptr::copy_nonoverlapping (trusted), element drop_fn / clone_fn fields (recorders; the real closures are checked by bounded K1 harnesses)',
    'storage backend in K2 harnesses is GhostMem, a user-defined backend that relocates on every capacity change; built-in backends have their own K1/K3 harnesses',
    'drain/splice contracts: elements yielded so far are owned (consumed or still held) by the caller and no yielded handle is used after its iterator was dropped; the history that breaks this in safe code is the open known finding D15 (known_findings.json), exhibited by the finding-kind harnesses k2_range::{drain,splice}_item_outlives_e8; likewise D16 (k2_range::element_mut_replace_e8): mutable element references are used through the value interface only, the owning handle behind DerefMut is not replaced',
    'termination is not proved (Kani); every harness is loop-free after stubbing / loop invariants, except loops with a stated unwind bound',
]

PROPS = {}

PROPS['C01'] = dict(level='proof', lemmas=['verus/lemmas.rs'], functions=[
    'lib.rs::copy_bytes', 'AnyVec::{insert,push,pop,remove,swap_remove,clear,get,at,len}', 'AnyVecRaw::{insert_unchecked,push_unchecked,reserve_one,index_check,type_check,clear}',
    'AnyVecTyped::{insert,push}', 'ops::{Pop,Remove,SwapRemove}::{new,bytes,consume}', 'TempValue::{move_into,drop,downcast}', 'LazyClone::move_into'],
    explanation='Each element-wise operation of the real code is verified, from every representation-invariant state (symbolic len <= cap), against the witness form of Vec\'s semantics; histories follow by induction (Verus lemma history_refines).')
PROPS['C02'] = dict(level='proof', lemmas=['verus/lemmas.rs'], functions=['AnyVec::{drain,splice}', 'ops::drain::Drain::{new,drop}', 'ops::splice::Splice::{new,drop}', 'iter::Iter cursor', 'utils::{move_elements_at,drop_elements_range,element_mut_ptr_at}'],
    explanation='drain/splice contracts from every state, every range, every consumption state (f front, b back).')
PROPS['C03'] = dict(level='proof', lemmas=['verus/lemmas.rs'], functions=['every K2 contract (ownership accounting at the witness)'], explanation='destroyed + handed out + visible == 1 for every value, in every operation contract. Holds for every history in which no element handle yielded by the type-erased drain/splice is used after its iterator was dropped; that history (safe code) breaks C03 on the pinned tree and is the open known finding D15; a second safe-code history (owning handle swapped out of an ElementMut through DerefMut) is the open known finding D16 (both in known_findings.json, reported as KNOWN-FINDING).')
PROPS['C05'] = dict(level='proof', lemmas=[], functions=['every primitive recorder precondition over the relocating GhostMem'], explanation='every primitive call lies inside the current region.')
PROPS['C06'] = dict(level='proof', lemmas=[], functions=['panic-view invariant at every call-out'], explanation='panic-view invariant at every call-out; misreporting replacement iterator.')
PROPS['C07'] = dict(level='proof', lemmas=[], functions=['mem::forget of Pop/Remove/SwapRemove/Drain/Splice'], explanation='forget harnesses.')

PROPS['C04'] = dict(level='proof', lemmas=[], functions=['AnyVecRaw::type_check', 'lib.rs::assert_types_equal', 'AnyVec::{push,insert,splice,downcast_ref,downcast_mut,element_typeid,element_layout}',
    'AnyValue::{downcast,downcast_ref}', 'AnyValueMut::{downcast_mut,swap}', 'ElementPointer::{downcast_ref,downcast_mut}', 'Splice::drop (type check of each replacement)'],
    explanation='Finite type table x full-domain vector states: mismatching push/insert/swap cannot return and touch nothing; splice stays valid; downcasts are Some exactly for the real type.')
PROPS['C08'] = dict(level='proof', lemmas=[], functions=['AnyVec::{clone,clone_empty,clone_empty_in}', 'AnyVecRaw::{clone,clone_empty,clone_empty_in}'],
    explanation='clone contract from every state incl. fixed-capacity targets; the element clone loop itself is a bounded K1 stand-in.')
PROPS['C09'] = dict(level='proof', lemmas=[], functions=['AnyValueCloneable::lazy_clone', 'LazyClone::{move_into,clone_into,clone}', 'ElementPointer::clone_into', 'TempValue::clone_into'],
    explanation='creation/copy/drop of lazy clones fires no recorder; each consumption is exactly one clone call-out from the original source, chain depth 1..3, five source kinds.')
PROPS['C10'] = dict(level='proof', lemmas=['verus/lemmas.rs'], functions=['AnyVecRaw::{reserve,reserve_exact,shrink_to,shrink_to_fit,reserve_one}', 'AnyVec::with_capacity_in', 'HeapMem::{expand,resize}', 'Heap::build_with_size'],
    explanation='capacity contracts over the ghost backend (full domain) and the real HeapMem against the allocator protocol (full usize range).')
PROPS['C11'] = dict(level='proof', lemmas=[], functions=['Stack::build', 'StackN::build', 'Mem::expand (default)', 'AnyVecRaw::{reserve_one,reserve,clone}', 'Splice::drop'],
    explanation='capacity formulas of the real builders on a grid; operations reach Mem::expand exactly when the result exceeds capacity (fixed-capacity ghost backend), and then before any effect.')
PROPS['C12'] = dict(level='proof', lemmas=['verus/lemmas.rs'], functions=['AnyVec::{as_bytes,as_bytes_mut,spare_bytes_mut,set_len}', 'AnyVecTyped::{as_ptr,as_mut_ptr,as_slice,as_mut_slice,spare_capacity_mut,set_len}', 'mem::dangling', 'StackMem/StackNMem/EmptyMem/HeapMem::as_ptr'],
    explanation='views are (base, len x size) / (base + len x size, (cap - len) x size) for every state; storage pointer alignment per backend.')
PROPS['C13'] = dict(level='proof', lemmas=[], functions=['AnyVec::{get,get_mut,at,at_mut}', 'AnyVecTyped::{get,get_mut,at,at_mut}', 'iter::Iter::{next,next_back}', 'AnyValueMut::swap', 'AnyValueTypelessMut::swap_unchecked'],
    explanation='handle address == base + size x i for every index; swap on real memory for all handle-kind pairs (values symbolic; 3-element vectors: bounded).')
PROPS['C14'] = dict(level='proof', lemmas=['verus/lemmas.rs'], functions=['iter::Iter::{next,next_back,size_hint,len,clone}', 'ops::Iter::{next,next_back,size_hint,len}'],
    explanation='cursor contracts from every (index,end) state; interleavings by the Verus lemma.')
PROPS['C15'] = dict(level='other', lemmas=[], functions=['unsafe impl Send/Sync for AnyVec, AnyVecTyped, ElementPointer, iter::Iter, TempValue', 'SatisfyTraits impls', 'Clone for AnyVec'],
    explanation='The property is a finite table of trait judgements. Each cell is an obligation on the real public types, evaluated by the Rust trait solver (impls! const) and discharged as a constant check; exhaustive over the table. Not covered: absence of methods guarded by where-clauses, and compile errors of constructor calls beyond the SatisfyTraits judgement.',
    technique='type-level obligations: trait judgements of the real types as constant assertions inside the crate (rustc trait solver), discharged by Kani')
PROPS['C17'] = dict(level='proof', lemmas=[], functions=['AnyVec::{into_raw_parts,from_raw_parts}', 'RawParts::clone', 'HeapMem::{into_raw_parts,from_raw_parts}', 'EmptyMem::{into_raw_parts,from_raw_parts}'],
    explanation='field-wise round trip for every state on the ghost backend, the real HeapMem (allocator protocol) and Empty.')
PROPS['C18'] = dict(level='proof', lemmas=[], functions=['HeapMem::{resize,expand,drop,into_raw_parts,from_raw_parts}', 'Heap::{build,build_with_size}'],
    explanation='the real HeapMem against an allocator-protocol model over the full usize range of capacities, per element layout.')
PROPS['C19'] = dict(level='proof', lemmas=[], functions=['the C01/C02/C08/C11 contracts on the --no-default-features build'],
    explanation='the fixed-capacity contract harnesses are re-discharged on the --no-default-features build; mem::Default is Empty there.')
